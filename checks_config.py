"""Per-property configuration of the driver: level, phases, vacuity guards, rule text, assumptions."""


def std_phases(nshards=None, mem_gib=12, timeout_q=1800, timeout_t=14400):
    def f(tier):
        ph = {"name": "main", "profile": "checked", "mem_gib": mem_gib,
              "timeout_s": timeout_q if tier == "quick" else timeout_t}
        if nshards:
            ph["nshards"] = nshards
        return [ph]
    return f


ASAN_ENV = {"ASAN_OPTIONS": "detect_leaks=1:halt_on_error=1:abort_on_error=1:allocator_may_return_null=0:symbolize=1",
            "ASAN_SYMBOLIZER_PATH": "/usr/bin/llvm-symbolizer-14"}


def asan_phase(timeout=10800):
    # quick-sized workload under AddressSanitizer + LeakSanitizer, zstd's C code instrumented too; no address-space limit
    return {"name": "asan", "profile": "asan", "sub": "asan", "mem_gib": None, "timeout_s": timeout, "env": ASAN_ENV}


def miri_phase(timeout=14400):
    # tiny codec-free (Compression::None) subset under the Miri interpreter
    return {"name": "miri", "profile": "miri", "sub": "miri", "mem_gib": None, "timeout_s": timeout, "max_restarts": 3}


COMMON_ASSUMPTIONS = [
    "verdict covers only the executions described in coverage; no claim beyond them",
    "harness binary rebuilt from /repo's working tree (path dependency, features async+verif, overflow checks on in pmtiles2)",
    "the reference implementation in harness/src/refimpl.rs (written from the v3 specification) is the oracle's trusted base",
]

CHECKS = {}


def reg(pid, level, rule, require=None, phases=None, assumptions=None, exhaustive_key=None):
    CHECKS[pid] = {
        "id": pid,
        "level": level,
        "rule": rule,
        "require": require or {},
        "phases": phases or std_phases(),
        "assumptions": COMMON_ASSUMPTIONS + (assumptions or []),
        "exhaustive_key": exhaustive_key,
    }


def with_layers(*layers):
    def f(tier):
        ph = [{"name": "main", "profile": "checked", "mem_gib": 12, "timeout_s": 1800 if tier == "quick" else 14400}]
        if tier == "thorough":
            for l in layers:
                ph.append(asan_phase() if l == "asan" else miri_phase())
        return ph
    return f


reg("C05", "exploration",
    "cases = valid entry lists: every list of <=2 entries (quick; <=3 thorough, quick strides the 3-entry lists) over the "
    "boundary value sets in coverage.small_list_value_sets (distinct by enumeration), lists whose entry COUNT sits on varint-width / "
    "power-of-two boundaries (127...131 073), plus seeded random lists up to 10^4 "
    "(quick) / 10^5 (thorough) entries (distinct by fingerprint of the entry list + codec; non-trivial = >=2 entries); each "
    "case runs encode-vs-spec, decode(own), decode(independent encoder) and, for a subset, the async twins; further classes: offsets "
    "k*2^32 behind the previous entry's end (alias 'contiguous' under 32-bit arithmetic), very regular lists of 4 000...100 000 entries "
    "that compress to a few dozen bytes, lists whose UNCOMPRESSED encoding begins with the gzip / zstd / zlib magic bytes, every varint "
    "width boundary 2^7...2^28 +-1 in the length and run-length columns, entries that continue their predecessor's run without being "
    "merged, ids right below / across the end of the z/x/y id domain; the sync stream parser under short reads; two directories "
    "stored back to back in one stream parsed without seeking in between; a third of the parses preceded by failed parses of cut / "
    "damaged copies",
    require={"any": {"back_to_back_parses_ok": 1000, "stream_parser_short_reads_ok": 500, "parses_preceded_by_failed_parses": 10000, "encode_matches_spec": 1000, "foreign_decode_ok": 1000, "async_twins": 50,
                     "lists_whose_plain_encoding_starts_with_a_codec_magic": 4, "regular_long_lists": 4}},
    phases=with_layers("miri"))

reg("C07", "exploration",
    "cases = every tile id of zooms 0..L (L=10 quick, 15 thorough; distinct by enumeration: id -> zxy vs reference, "
    "tile_id(zxy) vs id, adjacency of consecutive ids, zoom-block order, children blocks), boundary/random points at every "
    "zoom 0-31, boundary/random u64 ids incl. ids beyond zoom 31, and coordinate lookups outside the grid for z=0..255 against "
    "archives holding the aliased tile, the id the library itself computes, 0 and ids an implementation might use as an 'invalid' "
    "sentinel (u64::MAX, u64::MAX-1, 2^63, i64::MAX, u32::MAX, first id of zoom 32), the in-grid alias being looked up first on the same "
    "archive; zoom-block edges walked upwards AND downwards, jumps between distant zooms, rejected ids directly followed by ids of the "
    "highest zooms; eight threads converting at once, each in bursts of its own ids (distinct by fingerprint of (z,x,y) / id; "
    "non-trivial = out-of-grid or z>=1)",
    require={"any": {"conversions_from_concurrent_threads_ok": 60000, "sweep_ids": 80000000, "adjacency_checked": 80000000, "lookup_out_of_grid_none": 1000,
                     "lookup_in_grid_ok": 100, "ids_rejected": 1000, "children_blocks_checked": 1000}},
    exhaustive_key=None)

reg("C09", "exploration",
    "cases = 127-byte headers: decode->encode sweep over stored coordinate values (stride 37 quick, every one of the 2^32 "
    "values thorough; six slots per header; distinct by enumeration), random/boundary integer+enum fields incl. structured specials "
    "(center / bounds / counters / zooms 'not set' = all zero, or equal to each other) with short-read, "
    "async and consumed-bytes clauses, sampled f64 degrees incl. half-step ties (nearest-multiple clause), and the rejection "
    "classes (each magic byte, every version != 3, every unknown enum code, every truncation 0..126), also through the derived "
    "TryFrom<&[u8]> entry point and into sinks with short writes (sync and async)",
    require={"any": {"stored_values_swept": 100000000, "degree_headers": 10000, "rejections_ok": 1000, "detail_checks": 1000}},
    exhaustive_key="stored_sweep_exhaustive", phases=with_layers("miri"))


def c08_phases(tier):
    ph = [{"name": "checked", "profile": "checked", "mem_gib": 12, "timeout_s": 1800 if tier == "quick" else 14400}]
    if tier == "thorough":
        # what users of a stock release build get (arithmetic wraps silently), then the sanitizer layers
        ph.append({"name": "plain", "profile": "plain", "sub": "plain", "mem_gib": 12, "timeout_s": 14400})
        ph.append(asan_phase())
        ph.append(miri_phase())
    return ph


reg("C08", "exploration",
    "cases = byte strings fed to Header/Directory/PMTiles readers (sync+async), then lookups, partial opens, read_directories and "
    "a re-write on whatever opened: (a) crafted corpus, >=1 archive per hazard class x 4 codecs (incl. cycle-free chains of 3...90 000 "
    "DISTINCT nested directories, i.e. below and above any stack limit yet inside the visit budget; declared tile lengths summing to "
    "48 GiB / 3 TiB in a 64-byte data section; zstd frames whose header declares up to 2^64-2 content bytes; offsets aliasing other "
    "sections; every 1-byte and selected 2-byte metadata; non-object JSON with multi-byte characters from every byte offset 1...70; "
    "in the thorough tier a 54 MB metadata bomb); the same bytes behind a 300-byte prefix with the reader positioned at the archive's "
    "first byte; (b) every prefix and every "
    "single-byte boundary substitution {00,01,7f,80,ff,+1,-1} of small valid archives (exhaustive); (c) structure-aware "
    "mutations of valid archives in all codecs (header fields / raw varint columns / counts -> boundary values, pointer "
    "retargeting incl. cycles, stream corruption, wrong codec, stale headers, truncation), splices and bursts. Distinct by "
    "fingerprint of the input bytes; all hostile inputs are non-trivial. Inputs whose directories expand past 2e6 tiles / 1e5 "
    "directory visits (lenient estimator mirroring the library's decoding) are outside the claim and only counted.",
    require={"any": {"class.tiny-metadata.inputs": 1000, "class.non-object-metadata.inputs": 100, "open_behind_prefix.returned": 5000, "open.ok": 500, "open.err": 5000, "rewrite.ok": 100, "lookup.ok": 1000, "inputs_with_pointer_cycle": 10,
                     "class.entry-count.inputs": 16, "class.self-pointer.inputs": 4, "class.pointer-chain.inputs": 20,
                     "class.prefix.inputs": 500, "class.substitution.inputs": 3000, "open_async.returned": 1000,
                     "class.declared-content-size.inputs": 10, "class.oversized-length.inputs": 12}},
    phases=c08_phases,
    assumptions=["worker address space limited to 12 GiB (a legitimately declared 4 GiB tile buffer is not an absurd allocation; "
                 "2^40 pre-allocated entries are)", "8 MiB stack", "'returns' is decided on logical stream operations "
                 "(64*(len+4096)+2e6 budget), wall-clock is only an inconclusive watchdog"])

reg("C15", "fault_enumeration",
    "cases = (scenario, k): scenarios = {PMTiles to_writer/from_reader/get_tile_by_id, util read_directories/write_directories, "
    "Directory to_writer/from_reader, Header to_writer/from_reader} x {small, leaf-spilling} x 4 codecs x {sync, async}, plus lookup "
    "SEQUENCES that continue after a failure (same id retried, run-length neighbour, deduplicated twin, absent id: every call that "
    "reports success must return the tile's bytes) and the archive writers behind std / futures BufWriter (a failure reaches the "
    "library only at a flush or seek, possibly its last operation; the stream is handed back unflushed), and re-writes of an OPENED "
    "archive with faults in the destination or in the source reader; the error kind of the injected fault rotates over ten kinds "
    "(all of them at k < 2); opens through streams with short reads (faults in the tail transfers of a directory); the async header "
    "writer behind a buffering writer; archives holding tile ids beyond zoom 31; a fault the call issued and swallowed counts as a "
    "violation even when the returned value is complete; for each the "
    "fault-free run defines N stream operations and the run in which operation k and all later ones fail is executed for every "
    "k < N (stride reported per scenario when N exceeds the tier's limit). Distinct by enumeration of (scenario,k); every case "
    "injects a fault, so all are non-trivial. Oracle: no panic, and Ok => stream image / returned value equals the fault-free one.",
    require={"any": {"faults_executed": 2000, "faults_reached": 2000, "scenarios": 100, "outcome.err": 1000}},
    assumptions=["fail-stop fault model: operation k and every later one return an error without side effect",
                 "each write call is atomic; short transfers are covered by C13, not here"])

reg("C18", "exploration",
    "cases = (logical archive, start position P, pre-fill, writer): P in {0,1,10,127,128,4096,random<2^20}, pre-fill "
    "{empty, shorter than P, exactly P, slightly longer, longer than the archive} of sentinel bytes, archives empty/1/small/"
    "medium/leaf-spilling and archives with more than 2^24 bytes of tile data, start positions shortly before a multiple of 512/4096 and "
    "at / beyond 2^32 (stream with a storage-less hole below), a third of the streams with short or block-aligned writes, 4 codecs, sync and async (with Pending) writers; "
    "distinct by fingerprint of (archive,P,pre-fill,api); "
    "non-trivial = P > 0. Oracle: sentinel bytes before P intact, stream[P..final position] validates with the independent reader "
    "and addresses exactly the logical content (offsets relative to P), final position = P + archive end, nothing written behind the "
    "archive's end (a stream that was not longer ends there; bytes of a longer pre-filled stream behind it stay as they were).",
    require={"any": {"start_positions_at_or_beyond_4_gib": 4, "streams_with_short_writes": 30, "bytes_behind_the_archive_intact": 10, "validated_at_nonzero_p": 100, "with_leaf_spill": 4, "async_writes": 50, "archives_above_16_mib": 1}})

reg("C11", "exploration",
    "cases = (archive, set of ranges): archives library-written (empty/1/small/medium/leaf-spilling) and foreign (directory depth "
    "1-3 and deeper, tile entries and leaf pointers mixed in one directory, many small leaves, single-id ranges, any layout), 4 codecs; per archive ~110 (quick) / ~260 (thorough) ranges covering all 3x3 bound kinds with endpoints "
    "steered onto 0, 1, leaf first ids +-1, run starts/ends +-1, last id +-1, u64::MAX, the literal forms ..0 ..=0 0..0 .. , "
    "inverted and empty ranges, bounds k*2^32 + d past an entry, and random ones; archives with tile ids beyond zoom 31 (up to 2^64-4), "
    "archives whose tile data is cut off, and - without a codec - a sibling archive of identical layout (same section offsets and "
    "lengths, other entries) that is walked completely by range-filtered opens before this archive is opened partially; entry points from_bytes_partially (every range) and from_reader_partially / "
    "from_async_reader_partially / util::read_directories (rotating). Distinct by fingerprint of archive bytes; non-trivial = "
    "full open has >= 2 tiles. Oracle: the full open of the same bytes filtered with RangeBounds::contains.",
    require={"any": {"archives_opened_after_a_sibling_of_identical_layout": 2, "archives_with_tile_data_cut_off": 8, "ranges_equal": 5000, "ranges_selecting_strict_subset": 500, "ranges_selecting_nothing": 500,
                     "archives_with_leaves": 10, "opens_that_skipped_leaf_bytes": 20, "bound_kinds.open-excl": 100,
                     "bound_kinds.excl-incl": 100}})

reg("C01", "exploration",
    "cases = logical archives built through the public API: tile count classes {0, 1, 2-50, 1e3-5e3, 2e4-6e4 (leaf-spilling)}, id "
    "layouts {dense, zoom block, runs with gaps, sparse over the whole valid domain incl. 0 and the largest id, zoom-block edges, "
    "high-entropy}, contents 1 B-100 KiB with exact and near duplicates, random JSON-object metadata (unicode, escapes, i64/u64, "
    "17-digit floats, depth 60), all 6 tile types x 5 tile compressions x 4 internal compressions, zoom bytes 0-255, coordinates "
    "incl. bounds, exact multiples and half-step ties; further classes: equal-length content pools on dense id blocks (runs, "
    "back-references, offsets exact multiples of the length apart), 65 535-131 073 tiles alternating between 2-3 short contents (more "
    "than 2^16 entries in ONE compressed root), large contents that differ from another one only in a middle / first / last byte; "
    "every third archive is built through detours (junk replaced later, identical bytes re-added while unique and while shared, extra "
    "ids added and removed), every seventh in two sessions (every other tile, a third of the rest temporarily bound to the left "
    "neighbour's bytes, save + reopen, then the remaining tiles next to and over reader-backed ones); metadata of 70-400 KiB; tiles "
    "above 1 MiB / 2^24 bytes; leaf-spilling archives with k*4096+r entries (r in {0,1,2,31,63,64,100,4095}); archives whose first "
    "leaf directory is size-steered to exactly 127 bytes so that the second leaf lies at leaf-section offset 127 (= the root's "
    "absolute offset); redundant metadata above 1 MiB; two-session builds look reader-backed tiles up and bind / unbind a temporary id "
    "before the second half is added; a tenth of the archives additionally goes through real files (File, BufWriter<File>, "
    "BufReader<File>: the file must hold exactly what an in-memory cursor receives) and a tenth is opened through a reader with short "
    "reads; a third of the writes / opens is preceded, on the same thread, by library calls that FAIL (writes into failing and too "
    "small sinks, a refused directory, opens of cut and damaged copies of the very archive); tile ids up to u64::MAX (single and as the "
    "end of a run); two archive objects on ONE shared file handle looked up alternately; tiles above 2^24 bytes still reader-backed at "
    "write time; written by the sync (4/5) or async (1/5) "
    "writer and opened with from_bytes. "
    "Distinct by fingerprint of the logical archive; non-trivial = >=2 tiles and (duplicates or non-empty metadata). Oracle: the "
    "generator's own map + settings; every added tile fetched, ~100 absent ids probed per archive.",
    require={"any": {"archives_with_tile_id_u64_max": 4, "lookups_through_a_shared_file_handle": 200, "round_trips_through_short_reads_equal": 10, "opens_preceded_by_failed_calls": 40, "file_round_trips_equal": 10, "round_trips_equal": 300, "archives_with_leaf_directories": 8, "coordinate_lookups_equal": 1000,
                     "absent_ids_probed": 10000, "codec.none": 50, "codec.gzip": 50, "codec.brotli": 50, "codec.zstd": 50,
                     "archives_built_in_two_sessions": 20, "archives_built_through_detours": 50,
                     "archives_with_leaf_at_section_offset_127": 1}},
    assumptions=["no two generated contents collide under the library's 64-bit content hash (a collision would be reported as a violation)"],
    phases=with_layers("asan"))


def c02_python(cfg, tier, seed, work, agg):
    """Second, unrelated reader (Python stdlib) over the none/gzip files the Rust phase left in <work>/py."""
    import glob
    import json
    import os
    import sys
    here = os.path.dirname(os.path.abspath(__file__))
    sys.path.insert(0, os.path.join(here, "pyref"))
    import pmtiles_ref as P
    files = sorted(glob.glob(os.path.join(work, "py", "*.pmtiles")))
    c = agg["counters"]
    for f in files:
        exp = json.load(open(f[:-len(".pmtiles")] + ".json"))
        data = open(f, "rb").read()
        why = None
        try:
            h, entries, meta = P.validate(data)
            if sum(e[3] for e in entries) != exp["n_tiles"]:
                why = "python reader: directories address %d tiles, %d were added" % (sum(e[3] for e in entries), exp["n_tiles"])
            elif meta != json.loads(exp["metadata"]):
                why = "python reader: metadata differs from what was set"
            elif (h["tile_type"], h["tile_compression"], h["internal_compression"]) != (exp["tile_type"], exp["tile_compression"], exp["internal_compression"]):
                why = "python reader: header enum fields differ"
            elif [h["min_zoom"], h["max_zoom"], h["center_zoom"]] != exp["zooms"]:
                why = "python reader: zoom fields differ"
            else:
                for e in exp["expected"]:
                    got = P.lookup(data, h, e["id"])
                    if got is None or len(got) != e["len"] or P.fnv_mix(got) != e["fp"]:
                        why = "python reader: lookup of tile %d does not return the bytes that were added" % e["id"]
                        break
                    c["python_lookups"] = c.get("python_lookups", 0) + 1
                if why is None:
                    for a in exp["absent"]:
                        if P.lookup(data, h, a) is not None:
                            why = "python reader: lookup of absent tile %d returns data" % a
                            break
        except P.Invalid as e:
            why = "python reader rejects the file: %s" % e
        except (ValueError, KeyError, IndexError, UnicodeDecodeError, OverflowError) as e:
            why = "python reader rejects the file: %r" % (e,)
        c["python_files_validated"] = c.get("python_files_validated", 0) + 1
        if why:
            sig = "C02|python-reader|invalid-file|" + why.split(":")[0]
            v = agg["violations"].setdefault(sig, {"signature": sig, "what": why + " (" + json.dumps(exp["describe"])[:300] + ")", "count": 0,
                                                 "replay": {"property": "C02", "tier": tier, "seed": seed, "case": exp["case"], "profile": "checked",
                                                            "api": "python-reader", "class": "invalid-file", "what": why, "materialised": exp["describe"]}})
            v["count"] += 1
    if len(agg["samples"]) < 6 and files:
        agg["samples"].append({"python_reader_file": os.path.basename(files[0]), "bytes": os.path.getsize(files[0])})


def c02_phases(tier):
    return [{"name": "main", "profile": "checked", "mem_gib": 12, "timeout_s": 1800 if tier == "quick" else 14400},
            {"name": "python-reader", "kind": "python", "fn": c02_python}]


reg("C02", "exploration",
    "cases = every file produced by the sync and async writers for logical archives of the C01 classes (independent seeds), incl. "
    "leaf-spilling ones, 4 codecs; each whole file is judged by the Rust reference reader (all C02 clauses: header, sections inside "
    "the file and disjoint, root within 16 KiB, directories decodable by the upstream codec with exact consumption, strictly "
    "ascending non-overlapping entries inside tile data, leaf pointers carrying the leaf's first id, JSON-object metadata, the three "
    "counters recomputed, clustered flag, spec lookup for present and absent ids) and a sample of none/gzip files additionally by an "
    "unrelated Python reader. Distinct by fingerprint of the logical archive; non-trivial = >= 2 tiles.",
    require={"any": {"files_validated": 300, "files_with_leaf_directories": 8, "files_from_async_writer": 100,
                     "python_files_validated": 20, "python_lookups": 100, "spec_lookups": 10000}},
    phases=c02_phases,
    assumptions=["flate2/brotli/zstd are shared with the library as codec back ends (gzip additionally checked with Python zlib)"])

reg("C03", "exploration",
    "cases = archives emitted by the harness' independent spec-level writer (never by pmtiles2): section order permuted, sentinel "
    "gaps between and inside sections, directory trees of depth 1-3(+), run lengths >= 1, clustered / back-referencing / shuffled "
    "tile offsets, empty or random JSON-object metadata, counters present or 0, 4 codecs called directly with foreign parameters and "
    "framing variants (gzip header fields, zstd checksum/content size, brotli windows); every archive is first accepted by the "
    "reference validator (else inconclusive); plus the repository's three upstream fixtures. Entry points rotate from_bytes / "
    "from_reader / from_async_reader; util::read_directories on every archive; Directory::find_entry_for_tile_id on every "
    "directory of every 4th archive (probes at run starts/ends +-1, gaps, leaf-pointer ids and ids k*2^32+d past an entry start); "
    "a quarter of the archives store identical bytes at several offsets (valid, not deduplicated); further layouts: entries addressing a "
    "PREFIX of another entry's bytes, tile entries and leaf pointers mixed in one directory, a leaf at leaf-section offset 127 with the "
    "root at absolute offset 127, gzip leaves of 32768*k+4 bytes stored back to back, and the most regular directory there is "
    "(32...60 000 consecutive ids, equal lengths, contiguous offsets, one run at the very end; compression ratios far above 1000:1) with "
    "find_entry probes inside the final run; zstd frames with explicit windows of 2^23...2^27 bytes; padding at exactly one site; a leaf "
    "placed so that it ends at the tile-data offset of the tile entry that follows its pointer (offset column 0 = contiguous with a "
    "POINTER); a fifth of the opens is preceded by failed opens of cut / damaged copies on the same thread. Distinct by fingerprint of "
    "the archive bytes; non-trivial = >= 2 entries.",
    require={"any": {"opens_preceded_by_failed_calls": 50, "archives_equal": 1000, "entry_maps_equal": 1000, "fixtures_equal": 3, "find_entry_probes": 2000,
                     "depth.3": 50, "depth.2": 50, "layouts_with_permuted_sections": 100, "layouts_with_gaps": 100,
                     "layouts_with_empty_metadata": 50, "offset_style.2": 100,
                     "layouts_with_regular_dense_directory": 8, "layouts_with_mixed_directories": 50,
                     "layouts_with_leaf_at_section_offset_127": 20, "layouts_with_prefix_sharing_entries": 50}})

_C04_CELLS = {"transition.add.absent": 100, "transition.add.mem-unique": 100, "transition.add.mem-shared": 100,
              "transition.add.backed": 100, "transition.remove.absent": 100, "transition.remove.mem-unique": 100,
              "transition.remove.mem-shared": 100, "transition.remove.backed": 100, "transition.reopen-sync.n/a": 100,
              "transition.reopen-async.n/a": 100}
reg("C04", "exploration",
    "cases = edit histories over {add(id,bytes), add(id,EMPTY) (refused: state must stay), remove(id), save+reopen sync, save+reopen "
    "async}: (a) EVERY sequence of length <= 5 (quick) / <= 6 (thorough) over 12 symbols (ids 4,5,6 adjacent; contents A,B; A also "
    "held by the start archive; one empty add) from two start "
    "states {empty, opened foreign archive whose single run-length entry maps 5,6 -> A} (distinct by enumeration), (b) random "
    "histories of 200-2000 ops over up to 10^3 ids across zooms and a 50-content pool with a save+reopen every 50 ops alternating "
    "sync/async and the 4 codecs, some starting with a bulk of 4 100-9 500 distinct tiles (leaf directories) or 65 537-70 000 tiles on "
    "consecutive ids (more than 2^16 entries) or one content on more than 2^20 consecutive ids whose first 65 540 sharers are removed "
    "again, a sixth starting from a nested archive of the independent writer (bottom-up leaves, mixed directories, any section order), "
    "textual contents handed over as String / &str / Vec<u8>, empty adds in every Into<Vec<u8>> shape, ids at the very top of u64; "
    "scripted histories (equal-length contents A B A A C ... on adjacent ids; root directories of exactly 16256 / 16257 / 16258 bytes) "
    "(distinct by fingerprint). After EVERY op of (a) and every 25th of (b): lookups of the id universe by "
    "id and by coordinates, listing, count vs a BTreeMap model, plus the in-crate store report (feature verif). Evidence: "
    "transition matrix op x abstract pre-state {absent, mem-unique, mem-shared, backed}.",
    require={"any": dict(_C04_CELLS, **{"scripted_histories": 16, "histories_with_root_directory_at_the_budget": 6, "histories_with_a_run_beyond_2_pow_20": 2, "histories_starting_from_a_nested_foreign_archive": 4, "full_state_comparisons": 50000, "exhaustive_histories": 20000,
                                        "histories_with_more_than_65536_entries": 2, "transition.add-empty.backed": 100,
                                        "transition.add-empty.mem-unique": 100})},
    assumptions=["the store report hook (feature verif) only reads the three internal maps"])

reg("C10", "exploration",
    "cases = (logical archive with a duplication pattern, build history): patterns {random, dense block with runs A A B B A, "
    "alternating A B A B, duplicates across zooms with gaps, one content over a long dense block crossing a zoom boundary, one-content "
    "runs of 255...131 073 ids (integer-width boundaries of the run length), near duplicates sharing length/prefix}; plus archives "
    "from the independent writer that are valid but NOT deduplicated (identical bytes at several offsets), opened, optionally "
    "extended in memory, and re-written; histories {all in memory, half / save+reopen / half (duplicates between reader-backed and "
    "in-memory tiles; lower half first, UPPER half first, or alternating blocks of three ids, so that later adds sit in front of, behind and "
    "between reader-backed runs; some lookups before the second half), save+reopen then re-add identical bytes, detours through junk that "
    "is replaced/removed}; leaf-spilling archives WITH runs; n singles then a run with n on/next to 2^16, 2^17, 2^18; more than 2^18 "
    "distinct contents; a run beyond 2^20; a run ending on u64::MAX; a content of 2^24 bytes shared by several ids; a half added by "
    "another thread; saves over a longer stale file and saves by another thread than the one that added the "
    "tiles; textual contents handed to add_tile as String / &str / Vec<u8> depending on the id; contents above 1 MiB; sync and async "
    "stores; 4 codecs. Distinct by fingerprint of (archive, history); non-trivial = the archive has duplicate contents. Oracle: "
    "written file parsed by the reference reader (data length = sum of distinct contents, identical content <=> identical offset, "
    "no mergeable neighbours, entry count = number of maximal runs, content counter) + store report of the builder at quiescent "
    "points (one retained copy per live content, none unreferenced).",
    require={"any": {"archives_written_over_a_longer_stale_file": 50, "archives_minimal": 800, "archives_with_duplicates": 400, "archives_with_runs": 200, "history.0": 50,
                     "history.1": 50, "history.2": 50, "history.3": 50, "foreign_rewrites_minimal": 150, "archives_with_textual_contents": 50,
                     "foreign_sources_with_duplicate_contents": 100}},
    assumptions=["no two generated contents collide under the library's 64-bit content hash"])

reg("C06", "exploration",
    "cases = (valid tile-entry list, codec, initial leaf size, sync/async) through util::write_directories(_async) on a recording "
    "stream started at position 0/127/1000: lists size-steered so that the None encoding has exactly 16256/16257/16258/16300/16383/"
    "16384/16385 bytes, codec lists bracketed around the first spilling prefix (+-2 entries), and random lists of 0..10^4 (quick) / "
    "10^5 (thorough) entries, and very regular lists of 16 257...200 000 entries that compress to a few hundred bytes (must NOT spill "
    "under a codec); lists whose every entry has a 6-byte offset varint and id deltas up to 2^40; the same clauses through whole-archive "
    "writes at start positions {0,1,777,20 000}, half of them into a sink that accepts only part of most writes; whole archives without a "
    "codec whose single directory has 3700...4100 entries (just below / above the budget) behind a few KiB of metadata; streams that "
    "already hold stale bytes behind the write position; lists of 700...1025 entries made of the widest varints; a sixth of the writes "
    "preceded by failed directory writes on the same thread; lists with offsets k*2^32 off contiguous and with unmerged neighbours; initial "
    "leaf sizes {default,1,2,7,33,4096,10^6,usize::MAX/2+1,usize::MAX}. Distinct by fingerprint of (list, codec, leaf size); "
    "non-trivial = >= 2 entries. Oracle: root = stream[start, position) <= 16257 bytes and decodes (exact consumption) as one "
    "directory; spill => only pointers, each [offset,offset+length) decodes as exactly one leaf whose first id is the pointer's id, "
    "concatenated leaves = input; no spill => root = input and = single-directory encoding; spill <=> single-directory encoding > 16257.",
    require={"any": {"wide_lists_of_few_entries": 9, "boundary_archives_in_root": 6, "boundary_archives_spilled": 3, "writes_judged": 400, "spilled": 100, "fits_in_root": 100, "steered.16257": 1, "steered.16258": 1,
                     "steered.16384": 1, "bracketed.gzip": 1, "bracketed.brotli": 1, "bracketed.zstd": 1, "async_writes": 100,
                     "whole_archive_spills_judged": 6}})

reg("C17", "fault_enumeration",
    "cases = (archive, writer, crash point k): archives empty/1/small/medium/leaf-spilling, more than 2^24 bytes of tile data, uncompressed "
    "tiles with long zero runs in and at the END of the tile data; the object written is built with add_tile, or OPENED from an existing "
    "archive and written again unchanged, or opened, edited (metadata + one tile) and written; a quarter of the writes is preceded on "
    "the same thread by the complete write of a sibling archive (same ids, sizes, settings, other bytes) and by failed writes; archives "
    "with tile ids beyond zoom 31; x 4 codecs x sync/async writer into a "
    "fresh recording stream; the N recorded stream operations (each write atomic) are replayed for EVERY k in [0,N] into a fresh "
    "image which is handed to PMTiles::from_bytes. Distinct by enumeration of (scenario,k); non-trivial = the image changed since "
    "k-1 (the k-th operation was a write). Oracle: Ok => image byte-identical to the complete archive.",
    require={"any": {"writes_preceded_by_a_sibling_archive": 10, "crash_points_opened": 1000, "torn_images_rejected": 800, "complete_images_accepted": 100,
                     "scenarios_with_leaf_spill": 8, "async_scenarios": 50, "scenarios_rewriting_an_opened_archive": 16}},
    assumptions=["crash model: a prefix of the recorded write/seek operations took effect, each write call atomically; "
                 "torn individual writes are outside the property's quantifier"])

reg("C19", "exploration",
    "cases = offending element x position: a zero-length entry at every index of valid directories of 1-80 entries (sampled indices "
    "up to 2000 entries) x 4 codecs x serialiser/parser x sync/async; add_tile(id, []) on an existing and an absent id after every "
    "operation of random edit histories (incl. save+reopen) with full before/after comparison (lookups, listing, count, store report, "
    "bytes of a later save vs an untouched twin); length varints k*2^32 (length 0 once narrowed); every non-object JSON kind as metadata "
    "(incl. strings that hold an object, long strings / arrays with multi-byte characters starting at byte offsets 1...255, long numbers) x 4 "
    "codecs x sync/async open (archives from the independent writer); Unknown internal compression on write (empty / non-empty, "
    "sync/async), on open (patched foreign archives with and without metadata, and a header-only archive whose sections are all empty; "
    "full opens and range-filtered opens with ordinary, empty and inverted ranges), the directory-tree writer (also for 4065...9000 "
    "entries without a codec), zero-length entries that share their predecessor's offset, empty adds in every Into<Vec<u8>> shape, "
    "and at directory level (also zero-length input). Each clause has a positive control. Distinct by fingerprint; all non-trivial.",
    require={"any": {"tree_writer_rejections": 1000, "serialiser_rejections": 1000, "parser_rejections": 1000, "parser_rejections_async": 1000, "empty_adds_refused": 1000,
                     "saves_equal_to_untouched_twin": 50, "non_object_metadata_refused": 200, "non_object_metadata_refused_async": 200,
                     "unknown_compression_refused_on_write": 16, "unknown_compression_refused_on_open": 32,
                     "unknown_compression_refused_on_partial_open": 400}})

reg("C20", "exploration",
    "cases = archives with non-overlapping sections: library-written (C01 classes) and foreign layouts (permuted sections, sentinel "
    "gaps, tile data before directories/metadata, depth 1-3, mixed directories), one content under >= 2^17 ids, tiles above 2^24 bytes "
    "with other tiles stored behind them, one uncompressed leaf of more than 2^16 entries directly in front of the tile data, padding at "
    "exactly one site, two fifths of the archives through streams with short reads, point-query ranges, a lookup after one transient "
    "stream fault (bytes and byte ranges checked), two lookups of one reader-backed tile after an edit of the opened archive, 4 codecs, sync/async (with Pending) readers, full and range-filtered "
    "opens; every tile id (<= 500 tiles) or 500 sampled ids looked up, plus one absent id. Distinct by fingerprint of the archive "
    "bytes; non-trivial = >= 2 tiles. Oracle: interval arithmetic over the recorded read operations (bytes actually returned) "
    "against the sections declared by the independently parsed header: open reads only header/metadata/root/leaf bytes; a lookup "
    "reads exactly [tile offset, +length).",
    require={"any": {"lookups_exact_after_a_failed_lookup": 100, "lookups_exact_after_an_edit": 50, "archives_read_through_short_reads": 50, "partial_opens_selecting_one_id": 10, "opens_within_sections": 300, "lookups_exact": 10000, "foreign_archives": 100, "library_written_archives": 100,
                     "archives_with_leaves": 50, "partial_opens": 50, "async_opens": 50,
                     "layouts_with_tile_data_before_a_directory_or_metadata": 20}})

reg("C12", "exploration",
    "cases = valid inputs of C01/C03/C05/C06/C09: logical archives (written by both writers; all four writer x reader combinations "
    "compared, None outputs byte-compared, async output judged by the independent reader), foreign and library-written archives "
    "(sync vs async full and range-filtered opens incl. every tile's bytes; read_directories twins; RE-WRITE twins: opened with either "
    "reader kind and written with the matching writer, both outputs must hold the source's content and be byte-identical without a "
    "codec; lookups by coordinates inside and outside the grid), lock-step edit histories on a sync and an async archive, lookups in "
    "storage order with ONE transient stream fault injected on both sides now and then, entry lists x 4 codecs "
    "(Directory twins both ways; write_directories twins resolved through the reference decoder, incl. lists size-steered to "
    "16255...16259 / 16384 bytes where both twins must take the same spill decision) and headers. Async code is driven "
    "by block_on over plain cursors and over the instrumented stream with short transfers and random Pending. Distinct by "
    "fingerprint of the input; non-trivial = >= 2 tiles/entries. Oracle: the synchronous twin.",
    require={"any": {"lookups_around_transient_faults_equal": 1000, "coordinate_lookups_compared": 5000, "write_directories_twins_with_leaf_size_doubling": 2, "writer_reader_combinations_equal": 200, "none_outputs_byte_identical": 50, "async_outputs_validated": 200,
                     "full_opens_equal": 300, "partial_opens_equal": 300, "entry_maps_equal": 300, "directories_equal": 200,
                     "write_directories_equal": 50, "headers_equal": 1000, "boundary_twins_equal": 6,
                     "rewrite_twins_equal": 300, "rewrite_twins_byte_identical": 50}},
    phases=with_layers("asan"))

reg("C13", "exploration",
    "cases = (input, schedule): EVERY composition of n bytes (n <= 16 quick / 22 thorough, 2^(n-1) schedules each) for None-encoded "
    "directories on read and on write, sync and async (with Pending bit patterns); codec directories under every fixed chunk size, "
    "every two-part split and random compositions; headers under every fixed chunk 1..127 and every two-part split; whole archives "
    "(incl. leaf-spilling, 4 codecs; one with two contents above 2^24 bytes under chunks {4096, 65536, 2^20-1, random}) under fixed chunks {1,2,3,7,64,4096} and random schedules x {sync, async + Pending "
    "(alternate/random/never)} x {read, write, re-write of the archive opened through the fragmenting reader}, block-oriented streams "
    "(a transfer never crosses a multiple of 100/127/512/4096), metadata above 64 KiB; every Pending pattern over the first 12 polls of an async open+dump and write. "
    "Transfers are >= 1 byte, seeks are not fragmented, Interrupted is not injected. Distinct by enumeration (compositions, patterns) "
    "or fingerprint; all non-trivial. Oracle: the unfragmented twin in the same process (values for readers, bytes for writers).",
    require={"any": {"rewrites_through_fragmented_reader_equal": 50, "archives_with_metadata_above_64_kib": 2, "compositions_executed": 30000, "dir_reads_equal": 30000, "dir_writes_equal": 30000, "codec_directory_schedules": 1000,
                     "header_schedules_equal": 900, "archive_reads_equal": 100, "archive_reads_equal_async": 100,
                     "archive_writes_equal": 100, "archive_writes_equal_async": 100, "archives_with_leaves": 4, "archives_above_16_mib": 1,
                     "pending_patterns_equal": 4096, "short_transfers": 100000, "pending_answers": 10000}},
    phases=with_layers("asan"))


def c14_python(cfg, tier, seed, work, agg):
    """gzip output decoded by an implementation unrelated to flate2 (Python's gzip/zlib)."""
    import glob
    import os
    import sys
    here = os.path.dirname(os.path.abspath(__file__))
    sys.path.insert(0, os.path.join(here, "pyref"))
    import pmtiles_ref as P
    c = agg["counters"]
    for f in sorted(glob.glob(os.path.join(work, "py", "*.gz"))):
        raw = open(f[:-3] + ".raw", "rb").read()
        why = None
        try:
            if P.gunzip_unrelated(open(f, "rb").read()) != raw:
                why = "Python gzip decodes the output to different bytes"
        except Exception as e:  # noqa: BLE001
            why = "Python gzip rejects the output: %r" % (e,)
        c["python_gzip_files"] = c.get("python_gzip_files", 0) + 1
        if why:
            sig = "C14|python-gzip|non-standard-stream|" + why.split(":")[0]
            v = agg["violations"].setdefault(sig, {"signature": sig, "what": why, "count": 0,
                                                 "replay": {"property": "C14", "tier": tier, "seed": seed, "case": 0, "profile": "checked",
                                                            "api": "python-gzip", "class": "non-standard-stream", "what": why,
                                                            "materialised": {"len": len(raw)}}})
            v["count"] += 1


def c14_phases(tier):
    ph = [{"name": "main", "profile": "checked", "mem_gib": 12, "timeout_s": 1800 if tier == "quick" else 14400}]
    if tier == "thorough":
        ph.append(asan_phase())
    ph.append({"name": "python-gzip", "kind": "python", "fn": c14_python})
    return ph


reg("C14", "exploration",
    "cases = (byte string, codec, mode): payloads {empty, 1 byte, runs, text, incompressible, tiny, sizes around 4 KiB/32 KiB/64 KiB/"
    "128 KiB boundaries, multi-megabyte repetitive and random, 4 MiB+1 / 8 MiB / 9 MiB+17 (16 MiB+3 thorough), 17 MiB+5 of zero bytes "
    "(33 MiB+1 of a 4-byte pattern thorough; ratios far above 1000:1), payloads that are or start like compressed streams} x {none, gzip, brotli, zstd} x {one-shot compress_all/decompress_all; "
    "streams from the upstream encoders with foreign parameters/framing fed to decompress_all; streaming through compress/decompress "
    "(compress_async/decompress_async) with caller chunk schedules {1,2,3,7,64,4096,65536, random} over underlying streams that "
    "fragment and answer Pending}; before every one-shot inverse check a truncated and a corrupted copy of the stream are fed to "
    "decompress_all (a failed call must not influence the next one); payloads alternating incompressible / compressible segments and "
    "incompressible payloads of exactly k*65535 bytes; half of the streams are flushed in the middle, every third goes into a sink "
    "that buffers (std / futures BufWriter), reads into an empty buffer are interspersed (their result is not judged); every composition of the write chunks for |x| <= 12; 'unknown' on all eight entry points. "
    "Distinct by fingerprint of payload; non-trivial = >= 2 bytes. Oracle: identity + upstream decoders with exact stream "
    "consumption + Python gzip for a sample of gzip outputs.",
    require={"any": {"async_streams_into_buffering_sink": 200, "sync_streams_into_buffering_sink": 200, "one_shot_inverse_ok": 400, "upstream_decodes_ok": 400, "foreign_streams_decoded": 400,
                     "streamed_writes_decode_upstream": 2000, "streamed_reads_equal": 2000, "async_streams": 800, "compositions": 1000,
                     "unknown_refused": 8, "python_gzip_files": 3, "payload.empty": 5, "payload.large": 5,
                     "payload.multi_megabyte": 3, "payload.extreme_ratio": 1, "failed_calls_before_valid_one": 300}},
    phases=c14_phases)


def c16_xproc_compare(cfg, tier, seed, work, agg):
    """Cross-process clause: the same logical archives were serialised by separate OS processes."""
    keys = sorted(k for k in agg["extra"] if k.startswith("xproc_"))
    c = agg["counters"]
    c["xproc_processes"] = len(keys)
    if len(keys) < 2:
        agg["inconclusive"].append("cross-process clause: fewer than 2 processes reported outputs")
        return
    ref = agg["extra"][keys[0]]["fps"]
    pids = {agg["extra"][k]["pid"] for k in keys}
    c["xproc_distinct_pids"] = len(pids)
    for k in keys[1:]:
        fps = agg["extra"][k]["fps"]
        for i, (a, b) in enumerate(zip(ref, fps)):
            c["xproc_comparisons"] = c.get("xproc_comparisons", 0) + 1
            if a != b or a == "error":
                sig = "C16|process|process-dependent|output bytes differ between OS processes"
                v = agg["violations"].setdefault(sig, {"signature": sig, "what": f"archive #{i} serialised to {a} in one process and {b} in another", "count": 0,
                                                     "replay": {"property": "C16", "tier": tier, "seed": seed, "case": i, "profile": "checked", "sub": "xproc",
                                                                "api": "process", "class": "process-dependent", "what": "cross-process", "materialised": {"fps": [a, b]}}})
                v["count"] += 1
    for k in keys:
        agg["extra"].pop(k, None)


def c16_phases(tier):
    return [{"name": "main", "profile": "checked", "mem_gib": 12, "timeout_s": 1800 if tier == "quick" else 14400},
            {"name": "xproc", "profile": "checked", "sub": "xproc", "nshards": 6, "mem_gib": 12, "timeout_s": 1800},
            {"name": "xproc-compare", "kind": "python", "fn": c16_xproc_compare}]


reg("C16", "exploration",
    "cases = logical archives (C01 classes, 4 codecs) each built along 12 histories reaching the same logical state: insertion order "
    "sorted / reversed / shuffled (+ metadata assembled in another key order), detours (junk replaced later, extra ids added then "
    "removed, duplicate adds), save+reopen midway with a sync or async reopen (tiles partly reader-backed), a saved superset that is "
    "reopened and shrunk by removals only (nothing in memory at save time) or by a range-filtered open, by the sync and the async "
    "writer, and a leaf-spilling superset shrunk by removals; archives with more than 2^17 distinct contents part of which recur later "
    "under non-adjacent ids (built sorted, shuffled, and a second time); one history writes behind a 20 000-byte prefix; reader-backed "
    "tiles are looked up between reopen and the remaining adds; unrelated and failing library calls between two builds of the same "
    "archive; eight threads serialising the same archives at once vs alone; halves of one archive added by different threads; "
    "all outputs of one writer kind must be byte-identical (and sync == async where no codec is involved); the first three "
    "outputs are reopened and re-written (rewrite idempotence, covers stored coordinates); plus a cross-process phase in which 6 "
    "separate OS processes (different hash-map seeds) serialise the same archives and the driver compares fingerprints. Distinct by "
    "fingerprint of the logical archive; non-trivial = >= 2 tiles. Oracle: pairwise byte comparison (no golden files).",
    require={"any": {"outputs_from_concurrent_threads_identical": 100, "archives_built_before_and_after_unrelated_calls": 8, "logical_archives": 200, "history_pairs_byte_identical": 1500, "rewrites_identical": 600, "archives_with_leaves": 8,
                     "xproc_processes": 6, "xproc_comparisons": 200,
                     "archives_with_more_than_131072_distinct_contents": 2, "codec.none": 30, "codec.gzip": 30, "codec.brotli": 30, "codec.zstd": 30}},
    phases=c16_phases,
    assumptions=["separate OS processes get different std HashMap seeds (RandomState); 6 processes are compared"])
