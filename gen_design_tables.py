#!/usr/bin/env python3
"""Fills the SEEDED/THOROUGH tables of DESIGN.md from seeded/RESULTS.json, seeded/*/meta.json and evidence files."""
import glob
import json
import os
import re

V = os.path.dirname(os.path.abspath(__file__))


def short(t, n):
    t = re.sub(r"\s+", " ", str(t)).replace("|", "/").strip()
    return t if len(t) <= n else t[: n - 1] + "…"


def seeded_table():
    res = {r["seed"]: r for r in json.load(open(os.path.join(V, "seeded", "RESULTS.json")))}
    rows = ["| seed | what was changed | needs, in order to manifest | caught by (first signature) |", "|---|---|---|---|"]
    for d in sorted(glob.glob(os.path.join(V, "seeded", "C*-*"))):
        name = os.path.basename(d)
        m = json.load(open(os.path.join(d, "meta.json")))
        r = res.get(name, {})
        caught = r.get("caught_by", [])
        sig = ""
        for p in caught:
            sigs = r.get("detail", {}).get(p, {}).get("signatures", [])
            if sigs:
                sig = sigs[0].split("|", 1)[1] if "|" in sigs[0] else sigs[0]
                break
        rows.append(f"| {name} | {short(m.get('summary', ''), 150)} | {short(m.get('needs_to_manifest', ''), 130)} | "
                    f"{', '.join(caught) if caught else '**MISSED**'}: `{short(sig, 90)}` |")
    n = len(rows) - 2
    caught_n = sum(1 for r in res.values() if r.get("caught_by"))
    return f"{caught_n} of {n} kept seeded changes are caught by the final machinery (quick check of their own property, or of the properties named in `run_checks` of their meta.json; C08-l by the thorough corpus):\n\n" + "\n".join(rows)


def thorough_table(path_glob):
    rows = ["| property | tier | evaluations | distinct non-trivial | phases (evaluations, wall s) | wall s | verdict |", "|---|---|---|---|---|---|---|"]
    for f in sorted(glob.glob(path_glob)):
        d = json.load(open(f))
        c = d["coverage"]
        ph = "; ".join(f"{p['name']} ({p.get('evaluations', '-')}, {p['wall_s']})" for p in c.get("phases", []))
        rows.append(f"| {d['property_id']} | {d['tier']} | {c['evaluations']} | {c['distinct_nontrivial']} | {ph} | {d['wall_s']} | {c.get('verdict')} |")
    return "\n".join(rows)


if __name__ == "__main__":
    import sys
    s = open(os.path.join(V, "DESIGN.md")).read()
    a, b = "<!-- SEEDED_TABLE_BEGIN -->", "<!-- SEEDED_TABLE_END -->"
    if "SEEDED_TABLE\n" in s:
        s = s.replace("SEEDED_TABLE\n", f"{a}\n{b}\n")
    if "THOROUGH_TABLE\n" in s:
        s = s.replace("THOROUGH_TABLE\n", "<!-- THOROUGH_TABLE_BEGIN -->\n<!-- THOROUGH_TABLE_END -->\n")
    s = re.sub(re.escape(a) + r".*?" + re.escape(b), a + "\n" + seeded_table() + "\n" + b, s, flags=re.S)
    if len(sys.argv) > 1:
        ta, tb = "<!-- THOROUGH_TABLE_BEGIN -->", "<!-- THOROUGH_TABLE_END -->"
        s = re.sub(re.escape(ta) + r".*?" + re.escape(tb), ta + "\n" + thorough_table(sys.argv[1]) + "\n" + tb, s, flags=re.S)
    open(os.path.join(V, "DESIGN.md"), "w").write(s)
    print("DESIGN.md tables updated")
