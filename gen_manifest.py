#!/usr/bin/env python3
"""Regenerates MANIFEST.json from checks_config.py + manifest_texts.py (keeps the two in sync)."""
import json
import os
import sys

VERIF = os.path.dirname(os.path.abspath(__file__))
sys.path.insert(0, VERIF)
from checks_config import CHECKS  # noqa: E402
from manifest_texts import TEXTS, NOT_APPLICABLE, HOOK_COMMITS  # noqa: E402

checks = []
for pid in sorted(CHECKS):
    if pid not in TEXTS:
        continue
    t = TEXTS[pid]
    checks.append({
        "property_id": pid,
        "quick_cmd": f"python3 run.py check {pid} quick",
        "thorough_cmd": f"python3 run.py check {pid} thorough",
        "evidence_file": f"/verif/evidence/{pid}.json",
        "replay_cmd_template": "python3 run.py replay {path}",
        "engine": "pmverif",
        "level_claimed": {"category": CHECKS[pid]["level"], "text": t["level_text"], "design_ref": t.get("design_ref", "DESIGN.md §5 " + pid)},
        "level_note": t["level_note"],
        "technique": t["technique"],
    })
na = [x for x in NOT_APPLICABLE if x["property_id"] not in TEXTS]
m = {
    "version": 1,
    "setup_cmd": "python3 run.py setup",
    "hooks": {
        "guard": "cargo feature `verif` of pmtiles2 (off by default)",
        "enable": "the harness crate /verif/harness depends on pmtiles2 = { path = \"../../repo\", features = [\"async\", \"verif\"] }; every check runs `cargo build --release --offline` there first",
        "baseline_off_cmd": "cd /repo && cargo test --workspace --no-fail-fast --offline",
        "source_commits": HOOK_COMMITS,
        "add_only": True,
    },
    "engines": [{
        "name": "pmverif",
        "path": "/verif/harness",
        "serves_properties": [c["property_id"] for c in checks],
        "kind_free_text": "Rust harness (one sub-command per property) that drives the real library under generated, hostile and fault-injected workloads while oracles (reference implementation, models, stream-operation logs, panic/abort observer) watch the API and stream boundary; sharded and aggregated by run.py",
    }],
    "checks": checks,
    "not_applicable": na,
    "notes": "Runtime monitoring only. Exit 0 = held on everything explored, 1 = VIOLATION line(s) with replay files under /verif/replays, 2 = inconclusive (never a VIOLATION). Known findings: /verif/known_findings.json (9 repaired defects, none open). The level texts name the main workload classes; the complete, current list of classes per check is the `rule` text in /verif/checks_config.py, which every run copies into coverage.rule of its evidence file. Seeded changes used to measure sensitivity: /verif/seeded (317 kept, DESIGN.md section 10.5).",
}
json.dump(m, open(os.path.join(VERIF, "MANIFEST.json"), "w"), indent=1)
print(f"MANIFEST.json: {len(checks)} checks, {len(na)} not_applicable")
