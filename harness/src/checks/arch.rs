//! A sync-or-async opened archive behind one interface + the sequential map model used by C04/C10/C16.

use futures::executor::block_on;
use pmtiles2::{PMTiles, VerifStoreReport};
use std::collections::{BTreeMap, BTreeSet};
use std::io::Cursor;

pub enum Arch {
    S(PMTiles<Cursor<Vec<u8>>>),
    A(PMTiles<futures::io::Cursor<Vec<u8>>>),
}

macro_rules! both {
    ($self:expr, $pm:ident => $e:expr) => {
        match $self {
            Arch::S($pm) => $e,
            Arch::A($pm) => $e,
        }
    };
}

impl Arch {
    pub fn empty() -> Self {
        let mut pm = PMTiles::<Cursor<Vec<u8>>>::default();
        pm.internal_compression = pmtiles2::Compression::None;
        Arch::S(pm)
    }

    pub fn empty_async() -> Self {
        let mut pm = PMTiles::<futures::io::Cursor<Vec<u8>>>::default();
        pm.internal_compression = pmtiles2::Compression::None;
        Arch::A(pm)
    }

    pub fn open_sync(bytes: Vec<u8>) -> std::io::Result<Self> {
        PMTiles::from_bytes(bytes).map(Arch::S)
    }

    /// range-filtered open keeping ids <= `last`
    pub fn open_sync_partially(bytes: Vec<u8>, last: u64) -> std::io::Result<Self> {
        PMTiles::from_bytes_partially(bytes, ..=last).map(Arch::S)
    }

    pub fn open_async(bytes: Vec<u8>) -> std::io::Result<Self> {
        block_on(PMTiles::from_async_reader(futures::io::Cursor::new(bytes))).map(Arch::A)
    }

    pub fn is_async(&self) -> bool {
        matches!(self, Arch::A(_))
    }

    /// `add_tile` accepts anything that converts into bytes: textual contents are handed over as `String`,
    /// `&str` or `Vec<u8>` depending on the id, so the same text reaches the store through different types.
    pub fn add(&mut self, id: u64, data: Vec<u8>) -> std::io::Result<()> {
        if id % 3 != 0 && !data.is_empty() {
            if let Ok(text) = std::str::from_utf8(&data) {
                return if id % 3 == 1 {
                    both!(self, pm => pm.add_tile(id, text.to_string()))
                } else {
                    both!(self, pm => pm.add_tile(id, text))
                };
            }
        }
        both!(self, pm => pm.add_tile(id, data))
    }

    /// An add whose content is EMPTY, handed over in one of the shapes `impl Into<Vec<u8>>` admits (buffers with and
    /// without capacity, strings, slices, arrays).
    pub fn add_empty(&mut self, id: u64, variant: u64) -> std::io::Result<()> {
        match variant % 8 {
            0 => both!(self, pm => pm.add_tile(id, Vec::new())),
            1 => both!(self, pm => pm.add_tile(id, Vec::with_capacity(64))),
            2 => {
                let mut v = vec![1u8, 2, 3];
                v.clear();
                both!(self, pm => pm.add_tile(id, v))
            }
            3 => both!(self, pm => pm.add_tile(id, String::new())),
            4 => both!(self, pm => pm.add_tile(id, "")),
            5 => both!(self, pm => pm.add_tile(id, String::with_capacity(10))),
            6 => {
                let e: &[u8] = &[];
                both!(self, pm => pm.add_tile(id, e))
            }
            _ => both!(self, pm => pm.add_tile(id, [0u8; 0])),
        }
    }

    pub fn remove(&mut self, id: u64) {
        both!(self, pm => pm.remove_tile(id));
    }

    pub fn get(&mut self, id: u64) -> std::io::Result<Option<Vec<u8>>> {
        match self {
            Arch::S(pm) => pm.get_tile_by_id(id),
            Arch::A(pm) => block_on(pm.get_tile_by_id_async(id)),
        }
    }

    pub fn get_xyz(&mut self, x: u64, y: u64, z: u8) -> std::io::Result<Option<Vec<u8>>> {
        match self {
            Arch::S(pm) => pm.get_tile(x, y, z),
            Arch::A(pm) => block_on(pm.get_tile_async(x, y, z)),
        }
    }

    pub fn ids(&self) -> BTreeSet<u64> {
        both!(self, pm => pm.tile_ids().into_iter().copied().collect())
    }

    pub fn ids_len_raw(&self) -> usize {
        both!(self, pm => pm.tile_ids().len())
    }

    pub fn count(&self) -> usize {
        both!(self, pm => pm.num_tiles())
    }

    pub fn report(&self) -> VerifStoreReport {
        both!(self, pm => pm.verif_store_report())
    }

    pub fn set_codec(&mut self, c: u8) {
        both!(self, pm => pm.internal_compression = crate::gen::comp(c));
    }

    pub fn set_meta(&mut self, m: serde_json::Map<String, serde_json::Value>) {
        both!(self, pm => pm.meta_data = m);
    }

    pub fn apply_settings(&mut self, l: &crate::gen::Logical) {
        both!(self, pm => l.apply_settings(pm));
    }

    /// Serialise at position 0 of a stream that already holds `stale` bytes of an older, longer file (a re-used buffer or
    /// a file opened without truncation); returns the bytes up to the writer's final position.
    pub fn save_over(self, stale: usize) -> std::io::Result<Vec<u8>> {
        match self {
            Arch::S(pm) => {
                let mut out = Cursor::new(vec![0x77u8; stale]);
                pm.to_writer(&mut out)?;
                let end = out.position() as usize;
                let mut v = out.into_inner();
                v.truncate(end);
                Ok(v)
            }
            Arch::A(pm) => {
                let mut out = futures::io::Cursor::new(vec![0x77u8; stale]);
                block_on(pm.to_async_writer(&mut out))?;
                let end = out.position() as usize;
                let mut v = out.into_inner();
                v.truncate(end);
                Ok(v)
            }
        }
    }

    /// Serialise behind `prefix` bytes that are already in the stream; returns the bytes from the start position on.
    pub fn save_behind(self, prefix: usize) -> std::io::Result<Vec<u8>> {
        match self {
            Arch::S(pm) => {
                let mut out = Cursor::new(vec![0x11u8; prefix]);
                out.set_position(prefix as u64);
                pm.to_writer(&mut out)?;
                Ok(out.into_inner().split_off(prefix))
            }
            Arch::A(pm) => {
                let mut out = futures::io::Cursor::new(vec![0x11u8; prefix]);
                out.set_position(prefix as u64);
                block_on(pm.to_async_writer(&mut out))?;
                Ok(out.into_inner().split_off(prefix))
            }
        }
    }

    /// Serialise (consumes the archive) with whatever writer its reader type supports.
    pub fn save(self) -> std::io::Result<Vec<u8>> {
        match self {
            Arch::S(pm) => {
                let mut out = Cursor::new(Vec::new());
                pm.to_writer(&mut out)?;
                Ok(out.into_inner())
            }
            Arch::A(pm) => {
                let mut out = futures::io::Cursor::new(Vec::new());
                block_on(pm.to_async_writer(&mut out))?;
                Ok(out.into_inner())
            }
        }
    }
}

/// Sequential model: id -> (content, held in memory?)
#[derive(Clone, Debug, Default)]
pub struct Model {
    pub m: BTreeMap<u64, (Vec<u8>, bool)>,
}

impl Model {
    pub fn add(&mut self, id: u64, c: Vec<u8>) {
        self.m.insert(id, (c, true));
    }
    pub fn remove(&mut self, id: u64) {
        self.m.remove(&id);
    }
    pub fn reopened(&mut self) {
        for v in self.m.values_mut() {
            v.1 = false;
        }
    }
    pub fn get(&self, id: u64) -> Option<&Vec<u8>> {
        self.m.get(&id).map(|v| &v.0)
    }
    /// distinct contents among in-memory tiles
    pub fn mem_distinct(&self) -> BTreeSet<&[u8]> {
        self.m.values().filter(|v| v.1).map(|v| v.0.as_slice()).collect()
    }
    pub fn mem_ids(&self) -> usize {
        self.m.values().filter(|v| v.1).count()
    }
    /// abstract state of one id: 0 absent, 1 mem-unique, 2 mem-shared, 3 backed
    pub fn abs(&self, id: u64) -> u8 {
        match self.m.get(&id) {
            None => 0,
            Some((_, false)) => 3,
            // (the scan is linear: for very large models the distinction unique / shared is not made -- evidence only)
            Some((_, true)) if self.m.len() > 5000 => 1,
            Some((c, true)) => {
                let shared = self.m.iter().any(|(o, v)| *o != id && v.1 && v.0 == *c);
                if shared {
                    2
                } else {
                    1
                }
            }
        }
    }
}

/// Builder-retention clause (C10) + internal consistency, judged from the hook's report.
pub fn check_store(rep: &VerifStoreReport, model: &Model) -> Result<(), String> {
    if let Some(d) = rep.disagreements.first() {
        return Err(format!("internal maps disagree: {d}"));
    }
    let distinct = model.mem_distinct();
    if rep.stored_contents != distinct.len() {
        return Err(format!(
            "builder retains {} contents, {} distinct contents are referred to by in-memory tiles",
            rep.stored_contents,
            distinct.len()
        ));
    }
    let bytes: usize = distinct.iter().map(|c| c.len()).sum();
    if rep.stored_bytes != bytes {
        return Err(format!("builder retains {} content bytes, live distinct contents have {bytes}", rep.stored_bytes));
    }
    if rep.reference_sets != distinct.len() {
        return Err(format!("{} reference sets for {} live contents", rep.reference_sets, distinct.len()));
    }
    if rep.reference_total != model.mem_ids() || rep.ids_in_memory != model.mem_ids() {
        return Err(format!(
            "reference sets hold {} ids, {} in-memory ids known to the store, model has {}",
            rep.reference_total,
            rep.ids_in_memory,
            model.mem_ids()
        ));
    }
    if rep.ids_total != model.m.len() {
        return Err(format!("store knows {} ids, model has {}", rep.ids_total, model.m.len()));
    }
    Ok(())
}
