//! C01 — write→read round trip preserves every tile, the metadata and header settings.

use crate::checks::common::{absent_probes, compare_open_sync, logical_for, stored_coords, write_async, write_sync};
use crate::obs::{guard, Ctx};
use crate::refimpl as R;
use pmtiles2::PMTiles;
use serde_json::json;

pub fn run(ctx: &mut Ctx) {
    let n = ctx.n(640, 20_000);
    for i in 0..n {
        if !ctx.mine(i) {
            continue;
        }
        ctx.begin(i);
        let l = logical_for(ctx, "c01", i);
        let mut rng = ctx.rng("c01.probe", i);
        let mat = l.describe();
        let asyncw = i % 5 == 4;
        let api = if asyncw { "PMTiles::to_async_writer" } else { "PMTiles::to_writer" };
        let written = if asyncw {
            let pm = l.build_async();
            guard(|| write_async(pm))
        } else if i % 3 == 1 {
            // same logical archive, reached through detours (re-adds of identical bytes, replaced junk, removed extras)
            ctx.count("archives_built_through_detours");
            let built = guard(|| l.build_messy(&mut rng));
            match built {
                Ok(pm) => guard(|| write_sync(pm)),
                Err(p) => Err(p),
            }
        } else {
            let pm = l.build();
            guard(|| write_sync(pm))
        };
        ctx.case(l.fingerprint(), l.tiles.len() >= 2 && l.has_duplicates() || l.tiles.len() >= 2 && !l.meta.is_empty());
        let bytes = match written {
            Ok(Ok(b)) => b,
            Ok(Err(e)) => {
                ctx.violation(api, "write-error", "writing a valid archive failed", &e.to_string(), mat);
                ctx.end(i);
                continue;
            }
            Err(p) => {
                ctx.panic(api, &p, mat);
                ctx.end(i);
                continue;
            }
        };
        let stored = R::header_unpack(&bytes).ok().map(|h| stored_coords(&h));
        if let Some(h) = R::header_unpack(&bytes).ok() {
            if h.leaf_length > 0 {
                ctx.count("archives_with_leaf_directories");
            }
        }
        ctx.count(&format!("codec.{}", R::codec_name(l.internal_compression)));
        ctx.add("tiles_round_tripped", l.tiles.len() as u64);
        ctx.max("tiles_in_one_archive", l.tiles.len() as u64);
        ctx.max("content_bytes_in_one_archive", l.tiles.values().map(|c| c.len() as u64).sum());
        let probes = absent_probes(&l, &mut rng, 200);
        ctx.add("absent_ids_probed", probes.len() as u64);
        match guard(|| PMTiles::from_bytes(bytes.clone())) {
            Err(p) => ctx.panic("PMTiles::from_bytes", &p, mat),
            Ok(Err(e)) => ctx.violation("PMTiles::from_bytes", "open-error", "opening the written bytes failed", &e.to_string(), mat),
            Ok(Ok(mut pm)) => {
                match guard(|| compare_open_sync(&mut pm, &l, stored, &probes)) {
                    Err(p) => ctx.panic("PMTiles::get_tile_by_id", &p, mat),
                    Ok(Err(e)) => {
                        let class = if e.starts_with("metadata") {
                            "metadata"
                        } else if e.starts_with("coordinate") {
                            "coordinate"
                        } else if e.contains("never added") {
                            "phantom-tile"
                        } else if e.starts_with("tile ") || e.starts_with("num_tiles") {
                            "tiles"
                        } else {
                            "settings"
                        };
                        let detail = match class {
                            "metadata" => "metadata differs after a round trip",
                            "coordinate" => "coordinate is not the nearest multiple of 1e-7 after a round trip",
                            "phantom-tile" => "a tile that was never added is returned",
                            "tiles" => "tile set or tile content differs after a round trip",
                            _ => "header settings differ after a round trip",
                        };
                        ctx.violation("write→read", class, detail, &e, json!({"archive": mat, "writer": api}));
                    }
                    Ok(Ok(())) => {
                        ctx.count("round_trips_equal");
                        // lookups by coordinates
                        let step = (l.tiles.len() / 25).max(1);
                        for (id, c) in l.tiles.iter().step_by(step) {
                            if let Some((z, x, y)) = R::id_to_zxy(*id) {
                                match guard(|| pm.get_tile(x, y, z)) {
                                    Ok(Ok(Some(b))) if b == **c => ctx.count("coordinate_lookups_equal"),
                                    Ok(other) => ctx.violation(
                                        "PMTiles::get_tile",
                                        "tiles",
                                        "lookup by coordinates differs from the content added",
                                        &format!("get_tile({x},{y},{z}) for id {id}: {:?}", other.map(|o| o.map(|b| b.len()))),
                                        mat.clone(),
                                    ),
                                    Err(p) => ctx.panic("PMTiles::get_tile", &p, mat.clone()),
                                }
                            }
                        }
                    }
                }
            }
        }
        if ctx.want_sample() {
            ctx.sample(l.describe());
        }
        ctx.end(i);
    }
}
