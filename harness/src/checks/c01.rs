//! C01 — write→read round trip preserves every tile, the metadata and header settings.

use crate::checks::common::{absent_probes, compare_open_sync, logical_for, stored_coords, write_async, write_sync};
use crate::gen::{self, Logical};
use crate::obs::{guard, Ctx};
use crate::refimpl as R;
use crate::rng::Rng;
use pmtiles2::{Directory, PMTiles};
use serde_json::json;

/// Every other tile first (a third of the rest temporarily bound to their left neighbour's bytes, so that
/// the saved archive holds runs), save, reopen, then every remaining tile with its final bytes.
pub fn two_sessions(l: &Logical, rng: &mut Rng) -> std::io::Result<Vec<u8>> {
    let mut pm = PMTiles::new(gen::ttype(l.tile_type), gen::comp(l.tile_compression));
    l.apply_settings(&mut pm);
    let ids: Vec<u64> = l.tiles.keys().copied().collect();
    let mut later: Vec<u64> = Vec::new();
    for (k, id) in ids.iter().enumerate() {
        if k % 2 == 0 {
            pm.add_tile(*id, l.tiles[id].as_ref().clone())?;
        } else {
            later.push(*id);
            if rng.chance(1, 3) {
                pm.add_tile(*id, l.tiles[&ids[k - 1]].as_ref().clone())?;
            }
        }
    }
    let bytes = write_sync(pm)?;
    let mut pm = PMTiles::from_bytes(bytes)?;
    l.apply_settings(&mut pm);
    // some of the reader-backed tiles are looked up first; the bytes of one of them are then bound to a temporary id
    // that is removed again (what a lookup leaves behind in the store must survive that)
    for id in ids.iter().step_by(4).take(50) {
        let _ = pm.get_tile_by_id(*id)?;
    }
    if let (Some(first), Some(last)) = (ids.first(), ids.last()) {
        let tmp = last.wrapping_add(7);
        if !l.tiles.contains_key(&tmp) {
            pm.add_tile(tmp, l.tiles[first].as_ref().clone())?;
            pm.remove_tile(tmp);
        }
    }
    for id in later {
        pm.add_tile(id, l.tiles[&id].as_ref().clone())?;
    }
    write_sync(pm)
}

/// The same archive through real files: written with `to_writer` into a `std::fs::File` (or a `BufWriter<File>`), the
/// file must hold exactly the bytes an in-memory cursor received; opened again through `File` / `BufReader<File>`.
fn file_round_trip(ctx: &mut Ctx, l: &Logical, bytes: &[u8], stored: Option<[i32; 6]>, probes: &[u64], i: u64) {
    let Some(dir) = std::path::Path::new(&ctx.out).parent().map(std::path::Path::to_path_buf) else { return };
    let path = dir.join(format!("c01_file_{}_{i}.pmtiles", ctx.shard));
    let mat = l.describe();
    let buffered = i % 20 == 7;
    let written = guard(|| -> std::io::Result<()> {
        let f = std::fs::OpenOptions::new().read(true).write(true).create(true).truncate(true).open(&path)?;
        if buffered {
            let mut w = std::io::BufWriter::with_capacity(1000, f);
            l.build().to_writer(&mut w)?;
            std::io::Write::flush(&mut w)
        } else {
            let mut f = f;
            l.build().to_writer(&mut f)
        }
    });
    match written {
        Err(p) => ctx.panic("PMTiles::to_writer", &p, mat.clone()),
        Ok(Err(e)) => ctx.violation("PMTiles::to_writer", "write-error", "writing a valid archive into a file failed", &e.to_string(), mat.clone()),
        Ok(Ok(())) => {
            let on_disk = std::fs::read(&path).unwrap_or_default();
            if on_disk != bytes {
                ctx.violation(
                    "PMTiles::to_writer",
                    "file-differs",
                    "a file written with to_writer differs from what an in-memory cursor receives",
                    &format!("file has {} bytes, cursor received {}", on_disk.len(), bytes.len()),
                    mat.clone(),
                );
            } else {
                ctx.count("files_identical_to_cursor_output");
            }
            let opened = guard(|| -> Result<(), String> {
                let f = std::fs::File::open(&path).map_err(|e| e.to_string())?;
                if buffered {
                    let mut pm = PMTiles::from_reader(std::io::BufReader::with_capacity(700, f)).map_err(|e| format!("open failed: {e}"))?;
                    compare_open_sync(&mut pm, l, stored, probes)
                } else {
                    let mut pm = PMTiles::from_reader(f).map_err(|e| format!("open failed: {e}"))?;
                    compare_open_sync(&mut pm, l, stored, probes)
                }
            });
            match opened {
                Err(p) => ctx.panic("PMTiles::from_reader", &p, mat.clone()),
                Ok(Err(e)) => ctx.violation("write→read", "tiles", "tile set or tile content differs after a round trip through a file", &e, mat.clone()),
                Ok(Ok(())) => ctx.count("file_round_trips_equal"),
            }
            // two archive objects opened on ONE file handle (`&File`: they share the OS file position), looked up alternately in
            // storage order: an object must not assume that the stream still stands where its own last read left it
            let shared = guard(|| -> Result<u64, String> {
                let f = std::fs::File::open(&path).map_err(|e| e.to_string())?;
                let mut a = PMTiles::from_reader(&f).map_err(|e| format!("open failed: {e}"))?;
                // (an open reads from the stream's current position: rewind the shared handle for the second object)
                std::io::Seek::seek(&mut &f, std::io::SeekFrom::Start(0)).map_err(|e| e.to_string())?;
                let mut b = PMTiles::from_reader(&f).map_err(|e| format!("open failed: {e}"))?;
                let mut n = 0;
                let ids: Vec<u64> = l.tiles.keys().take(400).copied().collect();
                for (k, id) in ids.iter().enumerate() {
                    // object A walks the tiles in storage order; between any two of its lookups object B reads somewhere else
                    let got = a.get_tile_by_id(*id).map_err(|e| e.to_string())?;
                    if got.as_deref() != Some(l.tiles[id].as_slice()) {
                        return Err(format!("tile {id} (lookup {k}, object A) differs from the content added"));
                    }
                    let other = ids[(k * 7 + 3) % ids.len()];
                    let got = b.get_tile_by_id(other).map_err(|e| e.to_string())?;
                    if got.as_deref() != Some(l.tiles[&other].as_slice()) {
                        return Err(format!("tile {other} (lookup {k}, object B) differs from the content added"));
                    }
                    n += 2;
                }
                Ok(n)
            });
            match shared {
                Err(p) => ctx.panic("PMTiles::get_tile_by_id", &p, mat),
                Ok(Err(e)) => ctx.violation("write→read", "tiles", "two archive objects sharing one file handle return wrong tile bytes", &e, mat),
                Ok(Ok(n)) => ctx.add("lookups_through_a_shared_file_handle", n),
            }
        }
    }
    let _ = std::fs::remove_file(&path);
}

/// Tile lengths for ids 0..n such that the FIRST leaf directory the library writes (4096 entries, one per
/// id, contents back to back) has exactly `want` bytes with this codec, so that the second leaf starts at
/// leaf-section offset `want`. With want = 127 a leaf-relative offset equals the root's absolute offset.
fn steer_first_leaf(codec: u8, want: usize, rng: &mut Rng) -> Option<Vec<u32>> {
    let comp = gen::comp(codec);
    let size = |lens: &[u32]| -> usize {
        let mut off = 0u64;
        let entries: Vec<pmtiles2::Entry> = lens
            .iter()
            .enumerate()
            .map(|(i, l)| {
                let e = pmtiles2::Entry { tile_id: i as u64, offset: off, length: *l, run_length: 1 };
                off += u64::from(*l);
                e
            })
            .collect();
        let mut v = Vec::new();
        match Directory::from(entries).to_writer(&mut v, comp) {
            Ok(()) => v.len(),
            Err(_) => usize::MAX,
        }
    };
    let mut lens = vec![2u32; 4096];
    let mut cur = size(&lens);
    if cur > want {
        return None;
    }
    for _ in 0..6000 {
        if cur == want {
            return Some(lens);
        }
        let at = rng.usize(0, lens.len() - 1);
        let old = lens[at];
        lens[at] = rng.range(2, 32) as u32;
        let s = size(&lens);
        if s > want {
            lens[at] = old;
        } else {
            cur = s;
        }
    }
    None
}

fn steered_leaf_alias(ctx: &mut Ctx, case: u64, codec: u8) {
    let mut rng = ctx.rng("c01.steer", case);
    let Some(first) = steer_first_leaf(codec, 127, &mut rng) else {
        ctx.count("steered_first_leaf_not_reached");
        return;
    };
    // the steered leaf, then ~30k high-entropy entries so that the directory does not fit the root with any codec
    let mut tiles = std::collections::BTreeMap::new();
    for id in 0..4096u64 {
        let len = first[id as usize] as usize;
        let mut c = rng.bytes(len.max(2));
        c[0] = id as u8;
        c[1] = (id >> 8) as u8;
        if len >= 3 {
            c[2] = 0x5A;
        }
        tiles.insert(id, std::rc::Rc::new(c));
    }
    let mut id = 4096u64;
    for j in 0..30_000u32 {
        let len = rng.usize(3, 48);
        let mut c = rng.bytes(len);
        c[0] = j as u8;
        c[1] = (j >> 8) as u8;
        c[2] = (j >> 16) as u8;
        tiles.insert(id, std::rc::Rc::new(c));
        id += 1 + rng.log_range(1, 1 << 18);
    }
    let mut l = gen::gen_logical(&mut rng, gen::SizeClass::One, codec);
    l.tiles = tiles;
    l.class = String::from("SteeredLeaf127");
    if l.distinct_contents() != l.tiles.len() {
        ctx.count("steered_first_leaf_not_reached");
        return;
    }
    let mat = l.describe();
    let bytes = match guard(|| write_sync(l.build())) {
        Ok(Ok(b)) => b,
        Ok(Err(e)) => {
            ctx.violation("PMTiles::to_writer", "write-error", "writing a valid archive failed", &e.to_string(), mat);
            return;
        }
        Err(p) => {
            ctx.panic("PMTiles::to_writer", &p, mat);
            return;
        }
    };
    let aliased = R::walk(&bytes, &R::WalkLimits::default(), false)
        .map(|(_, w)| w.pointers.iter().filter(|(_, p)| p.offset == 127).count())
        .unwrap_or(0);
    if aliased == 0 {
        ctx.count("steered_first_leaf_not_reached");
        return;
    }
    ctx.count("archives_with_leaf_at_section_offset_127");
    ctx.case(l.fingerprint(), true);
    let probes = absent_probes(&l, &mut rng, 50);
    let stored = R::header_unpack(&bytes).ok().map(|h| stored_coords(&h));
    match guard(|| PMTiles::from_bytes(bytes.clone())) {
        Err(p) => ctx.panic("PMTiles::from_bytes", &p, mat),
        Ok(Err(e)) => ctx.violation("PMTiles::from_bytes", "open-error", "opening the written bytes failed", &e.to_string(), mat),
        Ok(Ok(mut pm)) => match guard(|| compare_open_sync(&mut pm, &l, stored, &probes)) {
            Err(p) => ctx.panic("PMTiles::get_tile_by_id", &p, mat),
            Ok(Err(e)) => ctx.violation("write→read", "tiles", "tile set or tile content differs after a round trip", &e, mat),
            Ok(Ok(())) => ctx.count("round_trips_equal"),
        },
    }
}

pub fn run(ctx: &mut Ctx) {
    let n = ctx.n(640, 20_000);
    for (j, codec) in [R::C_GZIP, R::C_BROTLI, R::C_ZSTD].into_iter().enumerate() {
        let case = n + j as u64;
        if ctx.mine(case) && !(crate::hostile::NO_ZSTD.load(std::sync::atomic::Ordering::Relaxed)) {
            ctx.begin(case);
            steered_leaf_alias(ctx, case, codec);
            ctx.end(case);
        }
    }
    for i in 0..n {
        if !ctx.mine(i) {
            continue;
        }
        ctx.begin(i);
        let mut l = logical_for(ctx, "c01", i);
        if i % 40 == 26 {
            // tile ids at the very top of u64 (single and as the end of a run)
            let c = std::rc::Rc::new(vec![0x7Eu8; 1 + (i % 5) as usize]);
            let d = std::rc::Rc::new(vec![0x7Du8, 1, 2]);
            match (i / 40) % 3 {
                0 => {
                    l.tiles.insert(u64::MAX, c);
                }
                1 => {
                    for id in [u64::MAX - 2, u64::MAX - 1, u64::MAX] {
                        l.tiles.insert(id, c.clone());
                    }
                }
                _ => {
                    l.tiles.insert(u64::MAX - 1, d);
                    l.tiles.insert(u64::MAX, c);
                }
            }
            l.class.push_str("/ids-up-to-u64-max");
            ctx.count("archives_with_tile_id_u64_max");
        }
        if i % 160 == 150 {
            // tiles above 2^24 bytes that are still reader-backed when the archive is written (two-session build)
            let len = (1usize << 24) + 4097 + (i as usize % 1000);
            l = gen::gen_huge_tiles(&mut ctx.rng("c01.huge", i), l.internal_compression, len);
        }
        let mut rng = ctx.rng("c01.probe", i);
        if (32..=35).contains(&(i % 80)) {
            // metadata above 1 MiB that compresses by far more than 1000:1 (one per codec in every 80 cases)
            let n = rng.usize(1_100_000, 2_500_000);
            let ch = *rng.pick(&['a', ' ', '0', 'é']);
            l.meta.insert(String::from("padding"), serde_json::Value::String(std::iter::repeat(ch).take(n).collect()));
            l.class.push_str("/redundant-metadata");
            ctx.count("archives_with_redundant_metadata_above_1_mib");
        }
        let mat = l.describe();
        if i % 6 == 2 {
            // failed writes (and a refused directory) on this thread right before the write under observation
            crate::checks::common::failing_calls_before(&mut rng, None);
            ctx.count("writes_preceded_by_failed_calls");
        }
        let asyncw = i % 5 == 4;
        let api = if asyncw { "PMTiles::to_async_writer" } else { "PMTiles::to_writer" };
        let written = if asyncw {
            let pm = l.build_async();
            guard(|| write_async(pm))
        } else if (i % 7 == 5 || l.class.starts_with("HugeTiles")) && l.tiles.len() >= 3 {
            // same logical archive, built in two sessions with a save + reopen in between: tiles are added
            // next to (and over) tiles that are still backed by the opened archive
            ctx.count("archives_built_in_two_sessions");
            guard(|| two_sessions(&l, &mut rng))
        } else if i % 3 == 1 {
            // same logical archive, reached through detours (re-adds of identical bytes, replaced junk, removed extras)
            ctx.count("archives_built_through_detours");
            let built = guard(|| l.build_messy(&mut rng));
            match built {
                Ok(pm) => guard(|| write_sync(pm)),
                Err(p) => Err(p),
            }
        } else {
            let pm = l.build();
            guard(|| write_sync(pm))
        };
        ctx.case(l.fingerprint(), l.tiles.len() >= 2 && l.has_duplicates() || l.tiles.len() >= 2 && !l.meta.is_empty());
        let bytes = match written {
            Ok(Ok(b)) => b,
            Ok(Err(e)) => {
                ctx.violation(api, "write-error", "writing a valid archive failed", &e.to_string(), mat);
                ctx.end(i);
                continue;
            }
            Err(p) => {
                ctx.panic(api, &p, mat);
                ctx.end(i);
                continue;
            }
        };
        let stored = R::header_unpack(&bytes).ok().map(|h| stored_coords(&h));
        if let Some(h) = R::header_unpack(&bytes).ok() {
            if h.leaf_length > 0 {
                ctx.count("archives_with_leaf_directories");
            }
        }
        ctx.count(&format!("codec.{}", R::codec_name(l.internal_compression)));
        ctx.add("tiles_round_tripped", l.tiles.len() as u64);
        ctx.max("tiles_in_one_archive", l.tiles.len() as u64);
        ctx.max("content_bytes_in_one_archive", l.tiles.values().map(|c| c.len() as u64).sum());
        let probes = absent_probes(&l, &mut rng, 200);
        ctx.add("absent_ids_probed", probes.len() as u64);
        if i % 6 == 2 || i % 6 == 4 {
            // failed opens of cut / damaged copies of these very bytes right before the open under observation
            crate::checks::common::failing_calls_before(&mut rng, Some(&bytes));
            ctx.count("opens_preceded_by_failed_calls");
        }
        if i % 10 == 3 && bytes.len() < (2 << 20) {
            // the same bytes through a reader that returns fewer bytes than asked for
            let mut rd = crate::io::Inst::new(bytes.clone());
            rd.c.rsched = crate::io::Sched::Random(Rng::new(rng.next()), *rng.pick(&[3usize, 100, 5000]));
            let r = guard(|| -> Result<(), String> {
                let mut pm = PMTiles::from_reader(&mut rd).map_err(|e| format!("open failed: {e}"))?;
                compare_open_sync(&mut pm, &l, stored, &probes)
            });
            match r {
                Err(p) => ctx.panic("PMTiles::from_reader", &p, mat.clone()),
                Ok(Err(e)) => ctx.violation("write→read", "tiles", "round trip through a reader with short reads differs", &e, mat.clone()),
                Ok(Ok(())) => ctx.count("round_trips_through_short_reads_equal"),
            }
        }
        match guard(|| PMTiles::from_bytes(bytes.clone())) {
            Err(p) => ctx.panic("PMTiles::from_bytes", &p, mat),
            Ok(Err(e)) => ctx.violation("PMTiles::from_bytes", "open-error", "opening the written bytes failed", &e.to_string(), mat),
            Ok(Ok(mut pm)) => {
                match guard(|| compare_open_sync(&mut pm, &l, stored, &probes)) {
                    Err(p) => ctx.panic("PMTiles::get_tile_by_id", &p, mat),
                    Ok(Err(e)) => {
                        let class = if e.starts_with("metadata") {
                            "metadata"
                        } else if e.starts_with("coordinate") {
                            "coordinate"
                        } else if e.contains("never added") {
                            "phantom-tile"
                        } else if e.starts_with("tile ") || e.starts_with("num_tiles") {
                            "tiles"
                        } else {
                            "settings"
                        };
                        let detail = match class {
                            "metadata" => "metadata differs after a round trip",
                            "coordinate" => "coordinate is not the nearest multiple of 1e-7 after a round trip",
                            "phantom-tile" => "a tile that was never added is returned",
                            "tiles" => "tile set or tile content differs after a round trip",
                            _ => "header settings differ after a round trip",
                        };
                        ctx.violation("write→read", class, detail, &e, json!({"archive": mat, "writer": api}));
                    }
                    Ok(Ok(())) => {
                        ctx.count("round_trips_equal");
                        // lookups by coordinates
                        let step = (l.tiles.len() / 25).max(1);
                        for (id, c) in l.tiles.iter().step_by(step) {
                            if let Some((z, x, y)) = R::id_to_zxy(*id) {
                                match guard(|| pm.get_tile(x, y, z)) {
                                    Ok(Ok(Some(b))) if b == **c => ctx.count("coordinate_lookups_equal"),
                                    Ok(other) => ctx.violation(
                                        "PMTiles::get_tile",
                                        "tiles",
                                        "lookup by coordinates differs from the content added",
                                        &format!("get_tile({x},{y},{z}) for id {id}: {:?}", other.map(|o| o.map(|b| b.len()))),
                                        mat.clone(),
                                    ),
                                    Err(p) => ctx.panic("PMTiles::get_tile", &p, mat.clone()),
                                }
                            }
                        }
                    }
                }
            }
        }
        if i % 10 == 7 && bytes.len() < (2 << 20) {
            file_round_trip(ctx, &l, &bytes, stored, &probes, i);
        }
        if ctx.want_sample() {
            ctx.sample(l.describe());
        }
        ctx.end(i);
    }
}
