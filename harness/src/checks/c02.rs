//! C02 — written archives are valid PMTiles v3 as judged by an independent reader.

use crate::checks::common::{logical_for, lookup_probes, verify_archive_bytes, write_async, write_sync};
use crate::obs::{guard, Ctx};
use crate::refimpl as R;
use serde_json::json;

pub fn run(ctx: &mut Ctx) {
    let n = ctx.n(640, 20_000);
    // files for the Python reader (none/gzip only): first K per shard
    let py_dir = std::path::Path::new(&ctx.out).parent().map(|p| p.join("py"));
    if let Some(d) = &py_dir {
        let _ = std::fs::create_dir_all(d);
    }
    let py_quota = ctx.n(40, 400).div_ceil(ctx.nshards.max(1));
    let mut py_done = 0u64;
    for i in 0..n {
        if !ctx.mine(i) {
            continue;
        }
        ctx.begin(i);
        let mut l = logical_for(ctx, "c02", i);
        if i % 160 == 148 {
            // tiles above 2^24 bytes that are still reader-backed when the archive is written (two-session build)
            let len = (1usize << 24) + 4097 + (i as usize % 1000);
            l = crate::gen::gen_huge_tiles(&mut ctx.rng("c02.huge", i), l.internal_compression, len);
        }
        let mut rng = ctx.rng("c02.probe", i);
        if i % 6 == 4 {
            crate::checks::common::failing_calls_before(&mut rng, None);
            ctx.count("writes_preceded_by_failed_calls");
        }
        let asyncw = i % 2 == 1;
        let api = if asyncw { "PMTiles::to_async_writer" } else { "PMTiles::to_writer" };
        let written = if asyncw {
            let pm = l.build_async();
            guard(|| write_async(pm))
        } else if (i % 7 == 5 || l.class.starts_with("HugeTiles")) && l.tiles.len() >= 3 {
            ctx.count("archives_built_in_two_sessions");
            guard(|| crate::checks::c01::two_sessions(&l, &mut rng))
        } else if i % 4 == 2 {
            ctx.count("archives_built_through_detours");
            let built = guard(|| l.build_messy(&mut rng));
            match built {
                Ok(pm) => guard(|| write_sync(pm)),
                Err(p) => Err(p),
            }
        } else {
            let pm = l.build();
            guard(|| write_sync(pm))
        };
        ctx.case(l.fingerprint(), l.tiles.len() >= 2);
        let mat = l.describe();
        let bytes = match written {
            Ok(Ok(b)) => b,
            Ok(Err(e)) => {
                ctx.violation(api, "write-error", "writing a valid archive failed", &e.to_string(), mat);
                ctx.end(i);
                continue;
            }
            Err(p) => {
                ctx.panic(api, &p, mat);
                ctx.end(i);
                continue;
            }
        };
        let probes = lookup_probes(&l, &mut rng, 60);
        ctx.add("spec_lookups", probes.len() as u64);
        match verify_archive_bytes(&bytes, &l, &probes) {
            Ok(v) => {
                ctx.count("files_validated");
                ctx.add("file_bytes_validated", bytes.len() as u64);
                if v.header.leaf_length > 0 {
                    ctx.count("files_with_leaf_directories");
                    ctx.max("leaf_directories_in_one_file", v.walk.leaves_visited);
                }
                if asyncw {
                    ctx.count("files_from_async_writer");
                }
                ctx.count(&format!("codec.{}", R::codec_name(l.internal_compression)));
                ctx.max("root_directory_end", v.header.root_offset + v.header.root_length);
                ctx.add("directory_entries_checked", v.walk.entries.len() as u64);
            }
            Err(e) => {
                // stable detail = the clause that failed (text before the first ':' / digits stripped)
                let clause = e.split(':').next().unwrap_or("").to_string();
                ctx.violation(
                    api,
                    "invalid-file",
                    &format!("independent reader rejects the written file: {clause}"),
                    &format!("{e} ({} bytes written, codec {})", bytes.len(), R::codec_name(l.internal_compression)),
                    json!({"archive": mat, "writer": api}),
                );
            }
        }
        // sample for the Python reader
        if let Some(d) = &py_dir {
            if py_done < py_quota && l.internal_compression <= R::C_GZIP && bytes.len() < (24 << 20) {
                let step = (l.tiles.len() / 30).max(1);
                let exp: Vec<serde_json::Value> = l
                    .tiles
                    .iter()
                    .step_by(step)
                    .map(|(id, c)| json!({"id": id, "len": c.len(), "fp": crate::rng::hash_bytes(c)}))
                    .collect();
                let absent: Vec<u64> = probes.iter().filter(|p| !l.tiles.contains_key(p)).take(20).copied().collect();
                let doc = json!({
                    "case": i,
                    "n_tiles": l.tiles.len(),
                    "expected": exp,
                    "absent": absent,
                    "metadata": serde_json::to_string(&l.meta).unwrap_or_default(),
                    "internal_compression": l.internal_compression,
                    "tile_type": l.tile_type,
                    "tile_compression": l.tile_compression,
                    "zooms": [l.min_zoom, l.max_zoom, l.center_zoom],
                    "describe": l.describe(),
                });
                let base = d.join(format!("s{}_{}", ctx.shard, i));
                if std::fs::write(base.with_extension("pmtiles"), &bytes).is_ok()
                    && std::fs::write(base.with_extension("json"), serde_json::to_vec(&doc).unwrap_or_default()).is_ok()
                {
                    py_done += 1;
                }
            }
        }
        if ctx.want_sample() {
            ctx.sample(json!({"archive": l.describe(), "writer": api, "file_bytes": bytes.len()}));
        }
        ctx.end(i);
    }
}
