//! C03 — spec-valid archives from other writers open to exactly the content they address.

use crate::checks::common::{settings_of, stored_coords};
use crate::gen::{self, Foreign};
use crate::io::{AInst, Inst, Pend};
use crate::obs::{guard, Ctx};
use crate::refimpl::{self as R, REntry, RHeader};
use crate::rng::{hash_bytes, Rng};
use futures::executor::block_on;
use pmtiles2::{util, Directory, PMTiles};
use serde_json::{json, Map, Value};
use std::collections::BTreeMap;
use std::io::{Read, Seek};

pub fn foreign_opts() -> R::ValidateOpts {
    R::ValidateOpts {
        allow_empty_metadata: true,
        strict_counters: false,
        pointer_is_first_id: true,
        strict_consumed: true,
    }
}

fn check_settings<T>(pm: &PMTiles<T>, h: &RHeader, meta: Option<&Map<String, Value>>) -> Result<(), String> {
    let s = settings_of(pm);
    if (s.tile_type, s.tile_compression, s.internal_compression) != (h.tile_type, h.tile_compression, h.internal_compression) {
        return Err(format!(
            "enum settings ({},{},{}) differ from the stored header ({},{},{})",
            s.tile_type, s.tile_compression, s.internal_compression, h.tile_type, h.tile_compression, h.internal_compression
        ));
    }
    if s.zooms != [h.min_zoom, h.max_zoom, h.center_zoom] {
        return Err(format!("zooms {:?} differ from stored {:?}", s.zooms, [h.min_zoom, h.max_zoom, h.center_zoom]));
    }
    let st = stored_coords(h);
    for i in 0..6 {
        if !gen::coord_denotes(s.coords[i], st[i]) {
            return Err(format!("coordinate slot {i}: stored {} reported as {:?}", st[i], s.coords[i]));
        }
    }
    if let Some(m) = meta {
        if &pm.meta_data != m {
            return Err(String::from("metadata differs from the stored JSON object"));
        }
    }
    Ok(())
}

/// Compare an opened archive with ground truth (id -> absolute offset,len in `file`).
fn check_open<T: Read + Seek>(
    pm: &mut PMTiles<T>,
    file: &[u8],
    truth: &BTreeMap<u64, (u64, u32)>,
    max_fetch: usize,
) -> Result<u64, String> {
    let mut ids: Vec<u64> = pm.tile_ids().into_iter().copied().collect();
    ids.sort_unstable();
    let want: Vec<u64> = truth.keys().copied().collect();
    if ids != want || pm.num_tiles() != want.len() {
        let missing: Vec<u64> = want.iter().filter(|i| ids.binary_search(i).is_err()).take(3).copied().collect();
        let extra: Vec<u64> = ids.iter().filter(|i| want.binary_search(i).is_err()).take(3).copied().collect();
        return Err(format!(
            "opened archive lists {} ids (count {}), directories address {}; missing {:?}, extra {:?}",
            ids.len(),
            pm.num_tiles(),
            want.len(),
            missing,
            extra
        ));
    }
    let step = (truth.len() / max_fetch.max(1)).max(1);
    let mut fetched = 0;
    for (id, (off, len)) in truth.iter().step_by(step) {
        let a = *off as usize;
        let b = a + *len as usize;
        if b > file.len() {
            continue; // fixture without tile data
        }
        match pm.get_tile_by_id(*id) {
            Ok(Some(t)) if t[..] == file[a..b] => fetched += 1,
            Ok(Some(t)) => return Err(format!("tile {id}: {} bytes returned differ from file[{a}..{b}]", t.len())),
            Ok(None) => return Err(format!("tile {id}: addressed by the directories but reported missing")),
            Err(e) => return Err(format!("tile {id}: {e}")),
        }
    }
    // ids next to addressed ones must be absent
    for id in truth.keys().step_by(step) {
        for p in [id.wrapping_add(1), id.wrapping_sub(1)] {
            if !truth.contains_key(&p) {
                match pm.get_tile_by_id(p) {
                    Ok(None) => {}
                    Ok(Some(_)) => return Err(format!("tile {p} is not addressed but a content is returned")),
                    Err(e) => return Err(format!("absent tile {p}: {e}")),
                }
            }
        }
    }
    Ok(fetched)
}

fn find_entry_clause(ctx: &mut Ctx, f: &Foreign, rng: &mut Rng) {
    // every directory of the archive, decoded by both sides
    let h = &f.header;
    let comp = gen::comp(h.internal_compression);
    let mut dirs: Vec<(u64, u64)> = vec![(h.root_offset, h.root_length)];
    let mut i = 0;
    while i < dirs.len() && dirs.len() < 400 {
        let (off, len) = dirs[i];
        i += 1;
        let raw = &f.bytes[off as usize..(off + len) as usize];
        let Ok(plain) = R::codec_decompress(h.internal_compression, raw, R::DECOMP_LIMIT) else { continue };
        let Ok((entries, _)) = R::dir_decode(&plain) else { continue };
        for e in &entries {
            if e.run_length == 0 {
                dirs.push((h.leaf_offset + e.offset, u64::from(e.length)));
            }
        }
        let lib = match guard(|| Directory::from_bytes(raw, comp)) {
            Ok(Ok(d)) => d,
            Ok(Err(e)) => {
                ctx.violation("Directory::from_bytes", "foreign-rejected", "spec-valid directory refused", &e.to_string(), json!({"layout": f.layout}));
                continue;
            }
            Err(p) => {
                ctx.panic("Directory::from_bytes", &p, json!({"layout": f.layout}));
                continue;
            }
        };
        if gen::from_lib_entries(&lib) != entries {
            ctx.violation("Directory::from_bytes", "foreign-decode", "spec-valid directory decoded to different entries", "entries differ from the reference decoder", json!({"layout": f.layout}));
            continue;
        }
        let mut probes: Vec<u64> = Vec::new();
        let step = (entries.len() / 12).max(1);
        for e in entries.iter().step_by(step).chain(entries.last()) {
            let end = e.tile_id + u64::from(e.run_length);
            probes.extend([e.tile_id, e.tile_id.wrapping_sub(1), e.tile_id + 1, end.wrapping_sub(1), end, end + 1]);
        }
        for e in entries.iter().step_by(step) {
            // ids whose distance to an entry start is k * 2^32 + d (narrowing casts in a lookup alias them)
            for k in [1u64, 2, 1 << 16] {
                for d in [0u64, 1, u64::from(e.run_length.saturating_sub(1))] {
                    probes.push(e.tile_id.wrapping_add(k << 32).wrapping_add(d));
                }
            }
        }
        probes.extend([0, u64::MAX, rng.next(), 1 << 32, (1 << 32) + 5]);
        for id in probes {
            let want = R::find_covering(&entries, id);
            let got: Option<REntry> = lib.find_entry_for_tile_id(id).map(|e| REntry {
                tile_id: e.tile_id,
                offset: e.offset,
                length: e.length,
                run_length: e.run_length,
            });
            if got != want {
                ctx.violation(
                    "Directory::find_entry_for_tile_id",
                    "wrong-entry",
                    "single-directory lookup finds a different entry than the one whose run covers the id",
                    &format!("tile id {id}: found {got:?}, the covering entry is {want:?}"),
                    json!({"layout": f.layout, "tile_id": id}),
                );
                return;
            }
            ctx.count("find_entry_probes");
        }
    }
}

fn one_foreign(ctx: &mut Ctx, i: u64) {
    let mut rng = ctx.rng("c03", i);
    let mut codec = R::CODECS[(i % 4) as usize];
    if i % 64 == 21 || i % 64 == 53 {
        codec = R::C_GZIP;
    }
    let mut o = gen::gen_foreign_opts(&mut rng, codec, ctx.n(1500, 6000) as usize);
    if i % 8 == 5 {
        o.depth = 3;
        o.n_entries = o.n_entries.max(200);
    }
    if i % 64 == 21 || i % 64 == 53 {
        // gzip leaves longer than one 32 KiB read chunk whose length is 32768*k + 4 (only trailer bytes lie behind the
        // chunk boundary), each followed directly by the next leaf
        o.codec = R::C_GZIP;
        o.depth = 2;
        o.n_entries = 30_000;
        o.leaf_entries = Some(14_000);
        o.align_gzip_leaves = true;
        o.gaps = false;
        o.offset_style = 2; // shuffled offsets: high-entropy offset column
    }
    let regular = i % 64 == 37;
    if regular {
        // the most regular directory there is: consecutive ids, equal lengths, contiguous offsets, one run at the very
        // end; 32 .. 60k entries in ONE directory where the codec allows it (compression ratios far above 1000:1)
        codec = R::CODECS[((i / 64) % 4) as usize];
        o = gen::gen_foreign_opts(&mut rng, codec, 100);
        o.n_entries = *rng.pick(&[32usize, 33, 100, 4096, 10_000, 20_000, 60_000]);
        o.regular = Some(*rng.pick(&[1u32, 8, 100]));
        o.depth = 1;
        o.offset_style = 0;
        o.mixed_dirs = false;
        o.small_metadata = true;
        ctx.count("layouts_with_regular_dense_directory");
    }
    let f = gen::gen_foreign(&mut rng, &o);
    // the generator's output must be spec-valid and the reference must agree with the ground truth
    match R::validate(&f.bytes, &foreign_opts()) {
        Ok(v) if v.abs == f.truth => {}
        Ok(_) => {
            ctx.inconclusive("foreign generator: reference walk disagrees with ground truth");
            return;
        }
        Err(e) => {
            ctx.inconclusive(&format!("foreign generator produced an archive the reference validator rejects: {e}"));
            return;
        }
    }
    let mat = json!({"layout": f.layout, "entries": f.entries.len(), "tiles": f.truth.len(), "leaves": f.n_leaves, "file_bytes": f.bytes.len()});
    ctx.case(hash_bytes(&f.bytes), f.entries.len() >= 2);
    ctx.count(&format!("depth.{}", f.depth.min(4)));
    if o.align_gzip_leaves {
        let aligned = R::walk(&f.bytes, &R::WalkLimits::default(), false)
            .map(|(_, w)| w.pointers.iter().filter(|(_, p)| p.length > 32_768 && p.length % 32_768 == 4).count())
            .unwrap_or(0);
        ctx.add("gzip_leaves_aligned_to_chunk_boundary", aligned as u64);
    }
    if o.prefix_entries {
        ctx.count("layouts_with_prefix_sharing_entries");
    }
    if let Ok((_, w)) = R::walk(&f.bytes, &R::WalkLimits::default(), false) {
        if f.header.root_offset == 127 && w.pointers.iter().any(|(_, p)| p.offset == 127) {
            ctx.count("layouts_with_leaf_at_section_offset_127");
        }
        if o.mixed_dirs && f.n_leaves > 0 {
            ctx.count("layouts_with_mixed_directories");
        }
    }
    ctx.count(&format!("codec.{}", R::codec_name(codec)));
    if o.permute_sections {
        ctx.count("layouts_with_permuted_sections");
    }
    if !f.gaps.is_empty() {
        ctx.count("layouts_with_gaps");
    }
    if o.empty_metadata {
        ctx.count("layouts_with_empty_metadata");
    }
    ctx.count(&format!("offset_style.{}", o.offset_style));
    if i % 5 == 3 {
        // failed opens / parses of cut and damaged copies of this archive on the same thread right before
        crate::checks::common::failing_calls_before(&mut rng, Some(&f.bytes));
        ctx.count("opens_preceded_by_failed_calls");
    }
    let meta = Some(&f.meta);
    let max_fetch = 400;
    // entry point rotates: from_bytes / from_reader / from_async_reader
    let verdict: Result<Result<u64, String>, crate::obs::PanicInfo> = match i % 3 {
        0 => guard(|| {
            let mut pm = PMTiles::from_bytes(f.bytes.clone()).map_err(|e| format!("open failed: {e}"))?;
            check_settings(&pm, &f.header, meta)?;
            check_open(&mut pm, &f.bytes, &f.truth, max_fetch)
        }),
        1 => guard(|| {
            let mut s = Inst::recording(f.bytes.clone());
            let mut pm = PMTiles::from_reader(&mut s).map_err(|e| format!("open failed: {e}"))?;
            check_settings(&pm, &f.header, meta)?;
            check_open(&mut pm, &f.bytes, &f.truth, max_fetch)
        }),
        _ => guard(|| {
            let mut s = AInst::new(f.bytes.clone());
            s.pend = Pend::Alternate;
            block_on(async {
                let mut pm = PMTiles::from_async_reader(&mut s).await.map_err(|e| format!("open failed: {e}"))?;
                check_settings(&pm, &f.header, meta)?;
                let mut ids: Vec<u64> = pm.tile_ids().into_iter().copied().collect();
                ids.sort_unstable();
                if ids != f.truth.keys().copied().collect::<Vec<_>>() {
                    return Err(format!("async open lists {} ids, directories address {}", ids.len(), f.truth.len()));
                }
                let step = (f.truth.len() / 100).max(1);
                let mut n = 0;
                for (id, (off, len)) in f.truth.iter().step_by(step) {
                    let t = pm.get_tile_by_id_async(*id).await.map_err(|e| e.to_string())?;
                    let (a, b) = (*off as usize, *off as usize + *len as usize);
                    if t.as_deref() != Some(&f.bytes[a..b]) {
                        return Err(format!("tile {id}: async lookup differs from file[{a}..{b}]"));
                    }
                    n += 1;
                }
                Ok(n)
            })
        }),
    };
    let api = ["PMTiles::from_bytes", "PMTiles::from_reader", "PMTiles::from_async_reader"][(i % 3) as usize];
    match verdict {
        Err(p) => ctx.panic(api, &p, mat.clone()),
        Ok(Err(e)) => {
            let class = if e.starts_with("open failed") {
                "rejects-valid"
            } else if e.starts_with("tile ") || e.contains("lists") {
                "wrong-content"
            } else {
                "wrong-settings"
            };
            let detail = match class {
                "rejects-valid" => "spec-valid foreign archive refused",
                "wrong-content" => "opened foreign archive does not yield exactly the addressed content",
                _ => "header settings / metadata not reported as stored",
            };
            ctx.violation(api, class, detail, &e, mat.clone());
        }
        Ok(Ok(n)) => {
            ctx.count("archives_equal");
            ctx.add("tiles_fetched_and_compared", n);
        }
    }
    // util::read_directories result map
    let h = f.header;
    let r = guard(|| {
        let mut c = std::io::Cursor::new(&f.bytes);
        util::read_directories(&mut c, gen::comp(codec), (h.root_offset, h.root_length), h.leaf_offset, ..)
    });
    match r {
        Err(p) => ctx.panic("util::read_directories", &p, mat.clone()),
        Ok(Err(e)) => ctx.violation("util::read_directories", "rejects-valid", "spec-valid directories refused", &e.to_string(), mat.clone()),
        Ok(Ok(m)) => {
            let mut got: Vec<(u64, u64, u32)> = m.iter().map(|(id, ol)| (*id, ol.offset, ol.length)).collect();
            got.sort_unstable();
            let want: Vec<(u64, u64, u32)> = f.truth.iter().map(|(id, (off, len))| (*id, off - h.data_offset, *len)).collect();
            if got != want {
                ctx.violation(
                    "util::read_directories",
                    "wrong-map",
                    "entry map differs from the addressed (offset,length) pairs",
                    &format!("{} entries returned, {} addressed", got.len(), want.len()),
                    mat.clone(),
                );
            } else {
                ctx.count("entry_maps_equal");
            }
        }
    }
    if i % 4 == 0 || regular {
        find_entry_clause(ctx, &f, &mut rng);
    }
    if ctx.want_sample() {
        ctx.sample(mat);
    }
}

fn fixtures(ctx: &mut Ctx) {
    let dir = std::path::Path::new(env!("CARGO_MANIFEST_DIR")).join("../../repo/test");
    let Ok(rd) = std::fs::read_dir(&dir) else {
        ctx.inconclusive("fixture directory /repo/test not readable");
        return;
    };
    for ent in rd.flatten() {
        let p = ent.path();
        if p.extension().and_then(|e| e.to_str()) != Some("pmtiles") {
            continue;
        }
        let Ok(bytes) = std::fs::read(&p) else { continue };
        let name = p.file_name().and_then(|n| n.to_str()).unwrap_or("?").to_string();
        let (h, w) = match R::walk(&bytes, &R::WalkLimits { max_tiles: 50_000_000, max_dirs: 1_000_000, max_depth: 4 }, true) {
            Ok(x) => x,
            Err(e) => {
                ctx.inconclusive(&format!("reference walker fails on fixture {name}: {e:?}"));
                continue;
            }
        };
        let truth: BTreeMap<u64, (u64, u32)> = w.tiles.iter().map(|(id, (o, l))| (*id, (h.data_offset + o, *l))).collect();
        let mat = json!({"fixture": name, "tiles": truth.len(), "leaves": w.leaves_visited});
        let meta = if h.meta_length > 0 {
            R::codec_decompress(h.internal_compression, &bytes[h.meta_offset as usize..(h.meta_offset + h.meta_length) as usize], R::DECOMP_LIMIT)
                .ok()
                .and_then(|p| R::json_parse(&p).ok())
                .and_then(|v| v.as_object().cloned())
        } else {
            Some(Map::new())
        };
        let r = guard(|| {
            let mut pm = PMTiles::from_bytes(bytes.clone()).map_err(|e| format!("open failed: {e}"))?;
            check_settings(&pm, &h, meta.as_ref())?;
            check_open(&mut pm, &bytes, &truth, 300)
        });
        match r {
            Err(p) => ctx.panic("PMTiles::from_bytes", &p, mat),
            Ok(Err(e)) => ctx.violation("PMTiles::from_bytes", "fixture", "upstream fixture not opened to the addressed content", &format!("{name}: {e}"), mat),
            Ok(Ok(n)) => {
                ctx.count("fixtures_equal");
                ctx.add("fixture_tiles_compared", n);
                ctx.case(hash_bytes(&bytes), true);
            }
        }
    }
}

pub fn run(ctx: &mut Ctx) {
    let n = ctx.n(1500, 80_000);
    for i in 0..n {
        if ctx.mine(i) {
            ctx.begin(i);
            one_foreign(ctx, i);
            ctx.end(i);
        }
    }
    if ctx.mine(n) {
        ctx.begin(n);
        fixtures(ctx);
        ctx.end(n);
    }
}
