//! C04 — under any edit history the archive behaves like a map from tile ID to bytes.
//! Lock-step sequential model; after every operation the whole observable state is compared and the
//! in-crate store report (feature `verif`) must show no internal disagreement.

use crate::checks::arch::{check_store, Arch, Model};
use crate::obs::{guard, Ctx};
use crate::refimpl::{self as R, REntry, RHeader};
use crate::rng::hash_u64s;
use serde_json::{json, Value};
use std::collections::BTreeMap;

#[derive(Clone, Debug, PartialEq, Eq, Hash)]
pub enum Op {
    Add(u64, usize), // id, content index
    Remove(u64),
    Reopen(bool, u8), // async?, codec used for the save
    /// add with EMPTY content: refused by contract (C19); the archive must stay as it was
    AddEmpty(u64),
}

fn op_name(op: &Op) -> &'static str {
    match op {
        Op::Add(..) => "add",
        Op::Remove(_) => "remove",
        Op::Reopen(false, _) => "reopen-sync",
        Op::Reopen(true, _) => "reopen-async",
        Op::AddEmpty(_) => "add-empty",
    }
}

fn show(op: &Op) -> String {
    match op {
        Op::Add(id, c) => format!("add({id},c{c})"),
        Op::Remove(id) => format!("remove({id})"),
        Op::Reopen(a, c) => format!("save+reopen({},{})", if *a { "async" } else { "sync" }, R::codec_name(*c)),
        Op::AddEmpty(id) => format!("add({id},<empty>)"),
    }
}

/// A tiny spec-valid archive from the independent writer: one run-length entry covering
/// ids 5 and 6 with content `a` (so the two ids share one stored content).
pub fn foreign_start(a: &[u8]) -> Vec<u8> {
    let entries = [REntry {
        tile_id: 5,
        offset: 0,
        length: a.len() as u32,
        run_length: 2,
    }];
    let root = R::dir_encode(&entries);
    let mut h = RHeader::default();
    h.root_offset = 127;
    h.root_length = root.len() as u64;
    h.meta_offset = 127 + h.root_length;
    h.meta_length = 0;
    h.leaf_offset = h.meta_offset;
    h.leaf_length = 0;
    h.data_offset = h.meta_offset;
    h.data_length = a.len() as u64;
    h.n_addressed = 2;
    h.n_entries = 1;
    h.n_contents = 1;
    h.clustered = 1;
    h.internal_compression = R::C_NONE;
    h.tile_compression = R::C_NONE;
    let mut f = R::header_pack(&h).to_vec();
    f.extend_from_slice(&root);
    f.extend_from_slice(a);
    f
}

pub fn compare_full(arch: &mut Arch, model: &Model, universe: &[u64], store: bool) -> Result<(), String> {
    let ids = arch.ids();
    let want: std::collections::BTreeSet<u64> = model.m.keys().copied().collect();
    if ids != want {
        return Err(format!("tile id listing {:?} differs from the model's {:?}", ids.iter().take(8).collect::<Vec<_>>(), want.iter().take(8).collect::<Vec<_>>()));
    }
    if arch.ids_len_raw() != want.len() {
        return Err(format!("tile id listing has {} items for {} ids", arch.ids_len_raw(), want.len()));
    }
    if arch.count() != want.len() {
        return Err(format!("tile count {} differs from the model's {}", arch.count(), want.len()));
    }
    for id in universe {
        let got = arch.get(*id).map_err(|e| format!("lookup of {id} failed: {e}"))?;
        if got.as_ref() != model.get(*id) {
            return Err(format!(
                "lookup of {id} returns {:?}, the model holds {:?}",
                got.as_ref().map(|g| (g.len(), g.first().copied())),
                model.get(*id).map(|g| (g.len(), g.first().copied()))
            ));
        }
        if let Some((z, x, y)) = R::id_to_zxy(*id) {
            let g2 = arch.get_xyz(x, y, z).map_err(|e| format!("lookup of {z}/{x}/{y} failed: {e}"))?;
            if g2.as_ref() != model.get(*id) {
                return Err(format!("lookup by coordinates {z}/{x}/{y} (id {id}) differs from the model"));
            }
        }
    }
    if store {
        check_store(&arch.report(), model).map_err(|e| format!("store report: {e}"))?;
    }
    Ok(())
}

/// Apply one op to both sides.
pub fn apply(arch: Arch, model: &mut Model, op: &Op, contents: &[Vec<u8>]) -> Result<Arch, String> {
    let mut arch = arch;
    match op {
        Op::Add(id, c) => {
            arch.add(*id, contents[*c].clone()).map_err(|e| format!("add failed: {e}"))?;
            model.add(*id, contents[*c].clone());
            Ok(arch)
        }
        Op::Remove(id) => {
            arch.remove(*id);
            model.remove(*id);
            Ok(arch)
        }
        Op::AddEmpty(id) => {
            // whether this is refused is C19's subject; here only the state afterwards counts. A library that
            // accepts the empty add has left the domain of this model: the history is abandoned, not judged.
            match arch.add_empty(*id, id.wrapping_mul(0x9E37_79B9) >> 7) {
                Err(_) => Ok(arch),
                Ok(()) => Err(String::from("ABANDON: empty add accepted")),
            }
        }
        Op::Reopen(asyncm, codec) => {
            arch.set_codec(*codec);
            let bytes = arch.save().map_err(|e| format!("save failed: {e}"))?;
            model.reopened();
            if *asyncm {
                Arch::open_async(bytes).map_err(|e| format!("async reopen failed: {e}"))
            } else {
                Arch::open_sync(bytes).map_err(|e| format!("reopen failed: {e}"))
            }
        }
    }
}

fn run_history(ctx: &mut Ctx, start_foreign: bool, ops: &[Op], contents: &[Vec<u8>], universe: &[u64], every: usize, trans: &mut BTreeMap<(u8, u8), u64>, states: &mut std::collections::HashSet<u64>) {
    run_history_from(ctx, start_foreign, None, ops, contents, universe, every, trans, states);
}

/// `rich`: an archive from the independent writer (nested leaf directories, any layout) with its ground truth.
#[allow(clippy::too_many_arguments)]
fn run_history_from(
    ctx: &mut Ctx,
    start_foreign: bool,
    rich: Option<&crate::gen::Foreign>,
    ops: &[Op],
    contents: &[Vec<u8>],
    universe: &[u64],
    every: usize,
    trans: &mut BTreeMap<(u8, u8), u64>,
    states: &mut std::collections::HashSet<u64>,
) {
    let mat = |k: usize| -> Value {
        json!({"start": if let Some(f) = rich { format!("opened foreign archive: {} ({} tiles)", f.layout, f.truth.len()) } else if start_foreign { String::from("opened foreign archive {5,6 -> c0 (one run)}") } else { String::from("empty") },
               "history": ops.iter().take(k + 1).map(show).collect::<Vec<_>>(),
               "contents": contents.iter().map(|c| (c.len(), c.first().copied())).collect::<Vec<_>>()})
    };
    let mut model = Model::default();
    let mut arch = if let Some(f) = rich {
        for (id, (off, len)) in &f.truth {
            model.m.insert(*id, (f.bytes[*off as usize..*off as usize + *len as usize].to_vec(), false));
        }
        match guard(|| Arch::open_sync(f.bytes.clone())) {
            Ok(Ok(a)) => a,
            Ok(Err(e)) => {
                ctx.violation("history/open", "op-failed", "opening a spec-valid start archive failed", &format!("{}: {e}", f.layout), mat(0));
                return;
            }
            Err(p) => {
                ctx.panic("history/open", &p, mat(0));
                return;
            }
        }
    } else if start_foreign {
        model.m.insert(5, (contents[0].clone(), false));
        model.m.insert(6, (contents[0].clone(), false));
        match Arch::open_sync(foreign_start(&contents[0])) {
            Ok(a) => a,
            Err(e) => {
                ctx.inconclusive(&format!("foreign start archive does not open: {e}"));
                return;
            }
        }
    } else {
        Arch::empty()
    };
    for (k, op) in ops.iter().enumerate() {
        // evidence: transition (op kind x abstract pre-state of the target id)
        let target = match op {
            Op::Add(id, _) | Op::Remove(id) | Op::AddEmpty(id) => Some(*id),
            Op::Reopen(..) => None,
        };
        let okind = match op {
            Op::Add(..) => 0u8,
            Op::Remove(_) => 1,
            Op::Reopen(false, _) => 2,
            Op::Reopen(true, _) => 3,
            Op::AddEmpty(_) => 4,
        };
        let pre = target.map_or(4, |t| model.abs(t));
        *trans.entry((okind, pre)).or_insert(0) += 1;
        let res = guard(|| apply(arch, &mut model, op, contents));
        arch = match res {
            Ok(Ok(a)) => a,
            Ok(Err(e)) if e.starts_with("ABANDON") => {
                ctx.count("histories_abandoned_empty_add_accepted");
                return;
            }
            Ok(Err(e)) => {
                ctx.violation(
                    &format!("history/{}", op_name(op)),
                    "op-failed",
                    "an operation of a valid history failed",
                    &format!("operation {k} {} failed: {e}", show(op)),
                    mat(k),
                );
                return;
            }
            Err(p) => {
                ctx.panic(&format!("history/{}", op_name(op)), &p, mat(k));
                return;
            }
        };
        ctx.count("operations");
        if every <= 1 || k % every == every - 1 || k + 1 == ops.len() || matches!(op, Op::Reopen(..)) {
            let r = guard(|| compare_full(&mut arch, &model, universe, true));
            match r {
                Ok(Ok(())) => ctx.count("full_state_comparisons"),
                Ok(Err(e)) => {
                    let class = if e.starts_with("store report") { "store-disagreement" } else { "differs-from-model" };
                    let detail = if class == "store-disagreement" {
                        "builder's internal store disagrees with the model of live contents".to_string()
                    } else {
                        format!("observable state differs from the map model after {}", op_name(op))
                    };
                    ctx.violation(&format!("history/{}", op_name(op)), class, &detail, &format!("after operation {k} {}: {e}", show(op)), mat(k));
                    return;
                }
                Err(p) => {
                    ctx.panic("history/observe", &p, mat(k));
                    return;
                }
            }
        } else {
            // cheap per-op observation: the touched id, and the count
            if let Some(t) = target {
                let got = guard(|| arch.get(t));
                match got {
                    Ok(Ok(g)) if g.as_ref() == model.get(t) && arch.count() == model.m.len() => {}
                    Ok(Ok(_)) => {
                        ctx.violation(&format!("history/{}", op_name(op)), "differs-from-model", &format!("observable state differs from the map model after {}", op_name(op)), &format!("after operation {k} {}: lookup of {t} or the tile count differs", show(op)), mat(k));
                        return;
                    }
                    Ok(Err(e)) => {
                        ctx.violation("history/lookup", "op-failed", "a lookup failed", &e.to_string(), mat(k));
                        return;
                    }
                    Err(p) => {
                        ctx.panic("history/lookup", &p, mat(k));
                        return;
                    }
                }
            }
        }
        // abstract state after the op
        if universe.len() <= 8 {
            let abs: Vec<u64> = universe.iter().map(|u| u64::from(model.abs(*u))).collect();
            states.insert(hash_u64s(&abs) ^ u64::from(arch.is_async()));
        }
    }
}

pub fn run(ctx: &mut Ctx) {
    let mut trans: BTreeMap<(u8, u8), u64> = BTreeMap::new();
    let mut states: std::collections::HashSet<u64> = std::collections::HashSet::new();
    // ---- (a) exhaustive over a small alphabet: adjacent ids 4,5,6; contents A,B (A is also what
    // the foreign start archive holds, so re-adding A collides with a reader-backed content)
    let contents: Vec<Vec<u8>> = vec![vec![0xAA; 5], vec![0xBB; 5]];
    let mut alphabet: Vec<Op> = Vec::new();
    for id in [4u64, 5, 6] {
        for c in 0..2usize {
            alphabet.push(Op::Add(id, c));
        }
        alphabet.push(Op::Remove(id));
    }
    alphabet.push(Op::Reopen(false, R::C_NONE));
    alphabet.push(Op::Reopen(true, R::C_NONE));
    alphabet.push(Op::AddEmpty(5));
    let k = alphabet.len() as u64; // 12
    let len = ctx.n(5, 6) as u32;
    let universe = [3u64, 4, 5, 6, 7];
    let mut case = 0u64;
    for l in 1..=len {
        let total = k.pow(l);
        let block = 2000u64;
        for blk in 0..total.div_ceil(block) {
            if ctx.mine(case) {
                ctx.begin(case);
                let mut n = 0;
                for h in blk * block..((blk + 1) * block).min(total) {
                    let mut ops = Vec::with_capacity(l as usize);
                    let mut x = h;
                    for _ in 0..l {
                        let mut op = alphabet[(x % k) as usize].clone();
                        // vary the codec of the save by history index
                        if let Op::Reopen(a, _) = op {
                            op = Op::Reopen(a, R::CODECS[((h / 7) % 4) as usize]);
                        }
                        ops.push(op);
                        x /= k;
                    }
                    for start_foreign in [false, true] {
                        run_history(ctx, start_foreign, &ops, &contents, &universe, 1, &mut trans, &mut states);
                        n += 1;
                    }
                }
                ctx.enumerated(n, n);
                ctx.add("exhaustive_histories", n);
                ctx.end(case);
            }
            case += 1;
        }
    }
    ctx.extra("exhaustive_history_length", json!(len));
    ctx.extra("exhaustive_alphabet", json!(alphabet.iter().map(show).collect::<Vec<_>>()));

    // ---- (a2) scripted histories: duplication patterns on adjacent ids with equal-length contents (offsets that are exact
    // multiples of the length apart), and archives whose root directory has exactly 16256 / 16257 / 16258 bytes
    {
        let eq: Vec<Vec<u8>> = vec![vec![0xA1; 6], vec![0xB2; 6], vec![0xC3; 6], vec![0xD4; 3]];
        let scripts: Vec<Vec<(u64, usize)>> = vec![
            vec![(1, 0), (2, 1), (3, 0), (4, 0), (5, 2)],
            vec![(1, 0), (2, 1), (3, 2), (4, 0), (5, 0), (6, 2)],
            vec![(1, 0), (2, 0), (3, 1), (4, 0), (5, 0), (6, 0), (7, 1), (8, 2)],
            vec![(10, 0), (11, 1), (12, 1), (13, 0), (14, 0), (15, 3), (16, 0)],
        ];
        for (si, sc) in scripts.iter().enumerate() {
            for variant in 0..8u64 {
                if ctx.mine(case) {
                    ctx.begin(case);
                    let mut ops: Vec<Op> = sc.iter().map(|(id, c)| Op::Add(*id, *c)).collect();
                    ops.push(Op::Reopen(variant % 2 == 1, R::CODECS[(variant / 2 % 4) as usize]));
                    ops.push(Op::Reopen(variant % 2 == 0, R::CODECS[((variant / 2 + 1) % 4) as usize]));
                    let universe: Vec<u64> = (0..20).collect();
                    run_history(ctx, false, &ops, &eq, &universe, 1, &mut trans, &mut states);
                    ctx.case(hash_u64s(&[si as u64, variant, 0x5c]), true);
                    ctx.count("scripted_histories");
                    ctx.end(case);
                }
                case += 1;
            }
        }
        for (k, gaps) in [2usize, 3, 4].iter().enumerate() {
            for asyncm in [false, true] {
                if ctx.mine(case) {
                    ctx.begin(case);
                    // 4063 unique short contents on consecutive ids (4 bytes per entry without a codec) with `gaps` id gaps of 200:
                    // root directory of 2 + 4*4063 + gaps bytes = 16256 / 16257 (the largest that stays in the root) / 16258 (spills)
                    let n = 4063u64;
                    let contents: Vec<Vec<u8>> = (0..n).map(|j| vec![j as u8, (j >> 8) as u8, 0x99, (j % 7) as u8]).collect();
                    let mut ops: Vec<Op> = Vec::with_capacity(n as usize + 2);
                    let mut id = 0u64;
                    for j in 0..n {
                        if j > 0 && (j as usize) <= *gaps {
                            id += 200;
                        }
                        ops.push(Op::Add(id, j as usize));
                        id += 1;
                    }
                    ops.push(Op::Reopen(asyncm, R::C_NONE));
                    ops.push(Op::Reopen(!asyncm, R::C_NONE));
                    let universe: Vec<u64> = vec![0, 1, 200, 201, 402, id - 1, id];
                    run_history(ctx, false, &ops, &contents, &universe, 100_000, &mut trans, &mut states);
                    ctx.case(hash_u64s(&[k as u64, u64::from(asyncm), 0x5d]), true);
                    ctx.count("histories_with_root_directory_at_the_budget");
                    ctx.end(case);
                }
                case += 1;
            }
        }
    }

    // ---- (b) long random histories over large alphabets
    let nrand = ctx.n(96, 12_000);
    for i in 0..nrand {
        if ctx.mine(case) {
            ctx.begin(case);
            let mut rng = ctx.rng("c04.random", i);
            let nops = rng.usize(200, ctx.n(700, 2000) as usize);
            let nids = rng.usize(20, 1000);
            let dom = crate::gen::id_domain();
            let ids: Vec<u64> = (0..nids)
                .map(|j| match j % 4 {
                    0 => j as u64,                         // dense low ids (adjacent)
                    1 => R::zoom_base(rng.range(1, 31) as u8) + rng.below(50), // across zooms
                    2 => rng.below(dom),
                    _ => 1000 + (j as u64) / 4,            // another adjacent block
                })
                .collect();
            let mut ids = ids;
            if i % 3 == 1 {
                // the very top of the id space (add_tile takes any u64): single ids and adjacent ones that form runs
                ids.extend([u64::MAX, u64::MAX - 1, u64::MAX - 2, u64::MAX - 2, u64::MAX - 1, u64::MAX]);
            }
            let pool: Vec<Vec<u8>> = (0..50)
                .map(|j| {
                    let n = if j % 10 == 0 { rng.usize(1000, 20_000) } else { rng.usize(1, 60) };
                    let mut c = rng.bytes(n);
                    c[0] = j as u8;
                    c
                })
                .collect();
            // collision bait for sampled / truncated content hashes: large contents of equal length that differ in
            // one byte in the middle, only in the first byte, only in the last byte
            let mut pool = pool;
            if i % 3 == 0 {
                let blen = *rng.pick(&[17_000usize, 40_000, 70_000]);
                let base = rng.bytes(blen);
                for at in [base.len() / 2, 0, base.len() - 1, 5000, base.len() - 5000] {
                    let mut c = base.clone();
                    c[at] ^= 0x40;
                    pool.push(c);
                }
                pool.push(base);
            }
            let mut ops: Vec<Op> = Vec::with_capacity(nops);
            let mut ids = ids;
            if i % 12 == 5 {
                // bulk history: thousands of distinct tiles first, so that save+reopen goes through leaf directories
                let bulk = rng.usize(4100, 9500);
                let mut id = 5_000_000u64;
                for j in 0..bulk {
                    ops.push(Op::Add(id, j % pool.len()));
                    if j % 97 == 0 {
                        ids.push(id);
                    }
                    id += 1 + rng.log_range(1, 1 << 20);
                }
                ids.push(id - 1); // the highest id of the bulk
                ops.push(Op::Reopen(i % 24 == 5, R::C_NONE));
                ops.push(Op::Reopen(i % 24 != 5, R::CODECS[(i % 4) as usize]));
            }
            let huge = i % 24 == 17;
            if huge {
                // more than 2^16 directory entries through save + reopen: consecutive ids alternating between two
                // short contents (no two neighbours merge into a run)
                let bulk = *rng.pick(&[65_537u64, 66_000, 70_000]);
                let base = 9_000_000u64;
                for j in 0..bulk {
                    ops.push(Op::Add(base + j, 1 + (j % 2) as usize));
                }
                ids.extend([base, base + 1, base + 65_534, base + 65_535, base + 65_536, base + bulk - 1]);
                ops.push(Op::Reopen(false, R::CODECS[((i / 24) % 4) as usize]));
                ops.push(Op::Reopen(true, R::CODECS[((i / 24 + 1) % 4) as usize]));
                ctx.count("histories_with_more_than_65536_entries");
            }
            let long_run = i % 24 == 10;
            if long_run {
                // one content on more than 2^20 consecutive ids (a single run-length entry) through save + reopen
                let n = (1u64 << 20) + 40 + rng.below(100);
                let base = 20_000_000u64;
                for j in 0..n {
                    ops.push(Op::Add(base + j, 1));
                }
                // the content is shared by far more than 2^16 ids: remove the earliest 65 540 sharers again (the later ones
                // must keep their content)
                for j in 0..65_540u64 {
                    ops.push(Op::Remove(base + j));
                }
                ids.extend([base, base + 65_539, base + 65_540, base + 65_541, base + (1 << 20) - 1, base + (1 << 20), base + (1 << 20) + 1, base + n - 1, base + n]);
                ops.push(Op::Reopen(i % 48 == 10, R::CODECS[((i / 24) % 4) as usize]));
                ops.push(Op::Reopen(i % 48 != 10, R::CODECS[((i / 24 + 1) % 4) as usize]));
                ctx.count("histories_with_a_run_beyond_2_pow_20");
            }
            for j in 0..nops {
                let r = rng.below(100);
                if j % 50 == 49 {
                    ops.push(Op::Reopen((j / 50) % 2 == 1, R::CODECS[(j / 50) % 4]));
                } else if r < 4 {
                    ops.push(Op::AddEmpty(*rng.pick(&ids)));
                } else if r < 60 {
                    ops.push(Op::Add(*rng.pick(&ids), rng.usize(0, pool.len() - 1)));
                } else {
                    ops.push(Op::Remove(*rng.pick(&ids)));
                }
            }
            let mut universe: Vec<u64> = ids.clone();
            for op in ops.iter().rev().take(4000).step_by(131) {
                if let Op::Add(id, _) = op {
                    universe.push(*id);
                }
            }
            universe.extend([dom - 1, dom, u64::MAX, 999_999_999]);
            universe.sort_unstable();
            universe.dedup();
            let fp = hash_u64s(&ops.iter().map(|o| crate::rng::hash_bytes(show(o).as_bytes())).collect::<Vec<_>>());
            if i % 6 == 3 {
                // start from a spec-valid archive of the independent writer: nested leaf directories stored bottom-up, mixed
                // directories, gaps, any section order
                let mut o = crate::gen::gen_foreign_opts(&mut rng, R::CODECS[(i % 4) as usize], 400);
                o.depth = 2 + (i / 6 % 2) as u32;
                o.n_entries = o.n_entries.max(30);
                o.small_metadata = true;
                let f = crate::gen::gen_foreign(&mut rng, &o);
                if R::validate(&f.bytes, &crate::checks::c03::foreign_opts()).is_ok() {
                    let mut uni = universe.clone();
                    uni.extend(f.truth.keys().step_by((f.truth.len() / 40).max(1)));
                    uni.sort_unstable();
                    uni.dedup();
                    ctx.count("histories_starting_from_a_nested_foreign_archive");
                    run_history_from(ctx, true, Some(&f), &ops, &pool, &uni, 25, &mut trans, &mut states);
                } else {
                    ctx.inconclusive("C04: foreign generator produced an invalid start archive");
                }
            } else {
                run_history(ctx, i % 2 == 1, &ops, &pool, &universe, if huge || long_run { 5_000_000 } else { 25 }, &mut trans, &mut states);
            }
            ctx.case(fp, true);
            ctx.max("random_history_length", nops as u64);
            if ctx.want_sample() {
                ctx.sample(json!({"kind": "random history", "ops": nops, "ids": nids, "head": ops.iter().take(8).map(show).collect::<Vec<_>>()}));
            }
            ctx.end(case);
        }
        case += 1;
    }
    // evidence: transition matrix and distinct abstract states
    let names = ["add", "remove", "reopen-sync", "reopen-async", "add-empty"];
    let pres = ["absent", "mem-unique", "mem-shared", "backed", "n/a"];
    for ((o, p), n) in &trans {
        ctx.add(&format!("transition.{}.{}", names[*o as usize], pres[*p as usize]), *n);
    }
    ctx.add("distinct_abstract_states_this_shard", states.len() as u64);
    ctx.max("distinct_abstract_states_one_shard", states.len() as u64);
    if ctx.shard == 0 {
        ctx.sample(json!({"kind": "exhaustive history", "start": "empty", "history": ["add(4,c0)", "add(5,c0)", "remove(4)", "save+reopen(async,none)"], "observed_after_every_op": "lookups of ids 3..7 by id and by coordinates, listing, count, store report"}));
    }
}
