//! C05 — directory encoding is lossless and byte-exact to the v3 specification.

use crate::gen::{self, entries_fp};
use crate::io::{AInst, Pend, Sched};
use crate::obs::{guard, hex_cap, Ctx};
use crate::refimpl::{self as R, CodecParams, REntry};
use crate::rng::Rng;
use futures::executor::block_on;
use pmtiles2::Directory;
use serde_json::{json, Value};

fn mat(list: &[REntry], codec: u8) -> Value {
    let show: Vec<Value> = list
        .iter()
        .take(12)
        .map(|e| json!({"tile_id": e.tile_id, "offset": e.offset, "length": e.length, "run_length": e.run_length}))
        .collect();
    json!({"codec": R::codec_name(codec), "n_entries": list.len(), "entries_head": show, "fingerprint": entries_fp(list)})
}

/// All clauses for one list and one codec. `with_async`: also run the async twins.
pub fn check_list(ctx: &mut Ctx, list: &[REntry], codec: u8, with_async: bool, rng: &mut Rng) {
    let spec = R::dir_encode(list);
    let dir = Directory::from(gen::to_lib_entries(list));
    let comp = gen::comp(codec);
    // now and then a write that fails right before (a failing sink, a refused entry in the middle of a list)
    if rng.chance(1, 16) {
        crate::checks::common::failing_calls_before(rng, None);
        ctx.count("writes_preceded_by_failed_calls");
    }
    // serialise
    let mut out = Vec::new();
    match guard(|| dir.to_writer(&mut out, comp)) {
        Ok(Ok(())) => {}
        Ok(Err(e)) => {
            ctx.violation("Directory::to_writer", "error", "valid directory refused", &format!("to_writer failed: {e}"), mat(list, codec));
            return;
        }
        Err(p) => {
            ctx.panic("Directory::to_writer", &p, mat(list, codec));
            return;
        }
    }
    // uncompressed bytes are the spec encoding
    let plain = if codec == R::C_NONE {
        Ok(out.clone())
    } else {
        R::codec_decompress(codec, &out, R::DECOMP_LIMIT)
    };
    match plain {
        Ok(p) if p == spec => ctx.count("encode_matches_spec"),
        Ok(p) => {
            let at = p.iter().zip(spec.iter()).position(|(a, b)| a != b).unwrap_or(p.len().min(spec.len()));
            ctx.violation(
                "Directory::to_writer",
                "not-spec-bytes",
                "serialisation differs from the v3 encoding",
                &format!(
                    "uncompressed serialisation ({} bytes) differs from the independent encoder ({} bytes) at byte {at}",
                    p.len(),
                    spec.len()
                ),
                json!({"case": mat(list, codec), "library": hex_cap(&p, 256), "spec": hex_cap(&spec, 256)}),
            );
        }
        Err(e) => ctx.violation(
            "Directory::to_writer",
            "undecodable",
            "compressed directory cannot be decoded by the upstream codec",
            &format!("upstream {} decoder: {e}", R::codec_name(codec)),
            mat(list, codec),
        ),
    }
    // a parse that fails right before (cut copy of the own output): nothing it leaves behind may show in the next parse
    if out.len() > 3 && rng.chance(1, 3) {
        let cut = out.len() - 1 - (out.len() / 5).min(3);
        let _ = guard(|| Directory::from_bytes(&out[..cut], comp).map(|d| d.len()));
        let mut bad = out.clone();
        let at = bad.len() / 2;
        bad[at] ^= 0x33;
        let _ = guard(|| Directory::from_bytes(&bad, comp).map(|d| d.len()));
        ctx.count("parses_preceded_by_failed_parses");
    }
    // parse own output
    match guard(|| Directory::from_bytes(&out, comp)) {
        Ok(Ok(d)) => {
            if gen::from_lib_entries(&d) != list {
                ctx.violation(
                    "Directory::from_bytes",
                    "roundtrip",
                    "serialise→parse does not return the identical entry list",
                    "entries differ after a round trip through the library's own encoding",
                    mat(list, codec),
                );
            } else {
                ctx.count("roundtrip_ok");
            }
        }
        Ok(Err(e)) => ctx.violation("Directory::from_bytes", "error", "own output refused", &format!("from_bytes failed on own output: {e}"), mat(list, codec)),
        Err(p) => ctx.panic("Directory::from_bytes", &p, mat(list, codec)),
    }
    // parse the independent encoder's output (compressed with different parameters)
    let params = CodecParams::random(rng);
    let foreign = R::codec_compress(codec, &spec, &params).expect("codec");
    match guard(|| Directory::from_bytes(&foreign, comp)) {
        Ok(Ok(d)) => {
            if gen::from_lib_entries(&d) != list {
                let got = gen::from_lib_entries(&d);
                let at = got.iter().zip(list.iter()).position(|(a, b)| a != b).unwrap_or(got.len().min(list.len()));
                ctx.violation(
                    "Directory::from_bytes",
                    "foreign-decode",
                    "parser decodes the independent encoder's output to different entries",
                    &format!("entry {at}: parsed {:?}, encoded {:?}", got.get(at), list.get(at)),
                    mat(list, codec),
                );
            } else {
                ctx.count("foreign_decode_ok");
            }
        }
        Ok(Err(e)) => ctx.violation(
            "Directory::from_bytes",
            "foreign-rejected",
            "independent encoder's output refused",
            &format!("from_bytes failed on spec bytes: {e}"),
            mat(list, codec),
        ),
        Err(p) => ctx.panic("Directory::from_bytes", &p, mat(list, codec)),
    }
    if with_async {
        let mut aw = AInst::new(Vec::new());
        aw.pend = Pend::Random(Rng::new(rng.next()), 1, 3);
        aw.c.wsched = Sched::Random(Rng::new(rng.next()), 64);
        match guard(|| block_on(dir.to_async_writer(&mut aw, comp))) {
            Ok(Ok(())) => {
                let aplain = R::codec_decompress(codec, &aw.c.data, R::DECOMP_LIMIT);
                if aplain.as_deref() != Ok(&spec[..]) {
                    ctx.violation(
                        "Directory::to_async_writer",
                        "not-spec-bytes",
                        "async serialisation differs from the v3 encoding",
                        "uncompressed async serialisation differs from the independent encoder",
                        mat(list, codec),
                    );
                }
            }
            Ok(Err(e)) => ctx.violation("Directory::to_async_writer", "error", "valid directory refused", &e.to_string(), mat(list, codec)),
            Err(p) => ctx.panic("Directory::to_async_writer", &p, mat(list, codec)),
        }
        let mut ar = AInst::new(foreign.clone());
        ar.pend = Pend::Random(Rng::new(rng.next()), 1, 3);
        ar.c.rsched = Sched::Random(Rng::new(rng.next()), 64);
        let flen = foreign.len() as u64;
        match guard(|| block_on(Directory::from_async_reader(&mut ar, flen, comp))) {
            Ok(Ok(d)) => {
                if gen::from_lib_entries(&d) != list {
                    ctx.violation(
                        "Directory::from_async_reader",
                        "foreign-decode",
                        "async parser decodes the independent encoder's output to different entries",
                        "entries differ",
                        mat(list, codec),
                    );
                }
            }
            Ok(Err(e)) => ctx.violation("Directory::from_async_reader", "foreign-rejected", "independent encoder's output refused", &e.to_string(), mat(list, codec)),
            Err(p) => ctx.panic("Directory::from_async_reader", &p, mat(list, codec)),
        }
        // two directories stored back to back in ONE stream, parsed one after the other (sync and async): the first parse must not
        // read beyond its `length` bytes (whether it consumes all of them is not demanded -- the async gzip decoder may leave
        // trailer bytes unread --, so the stream is positioned onto the second directory before the second parse)
        {
            let mut both = foreign.clone();
            both.extend_from_slice(&foreign);
            both.extend_from_slice(&[0xAB; 9000]);
            let mut s2 = crate::io::Inst::new(both.clone());
            let mut over_read = false;
            let r = guard(|| -> std::io::Result<(Directory, Directory)> {
                let a = Directory::from_reader(&mut s2, flen, comp)?;
                over_read = s2.c.pos > flen;
                std::io::Seek::seek(&mut s2, std::io::SeekFrom::Start(flen))?;
                Ok((a, Directory::from_reader(&mut s2, flen, comp)?))
            });
            if over_read {
                ctx.violation("Directory::from_reader", "over-read", "the parser reads beyond the length it was given", &format!("stream position {} after parsing a directory of {flen} bytes", s2.c.pos), mat(list, codec));
            }
            match r {
                Ok(Ok((a, b))) if gen::from_lib_entries(&a) == list && gen::from_lib_entries(&b) == list => ctx.count("back_to_back_parses_ok"),
                Ok(Ok(_)) => ctx.violation("Directory::from_reader", "foreign-decode", "two directories stored back to back are not both decoded to their entries", "second parse differs", mat(list, codec)),
                Ok(Err(e)) => ctx.violation("Directory::from_reader", "foreign-rejected", "two directories stored back to back: a parse fails", &e.to_string(), mat(list, codec)),
                Err(p) => ctx.panic("Directory::from_reader", &p, mat(list, codec)),
            }
            let mut a2 = AInst::new(both);
            a2.pend = Pend::Alternate;
            let mut over_read_at = None;
            let r = guard(|| {
                block_on(async {
                    let a = Directory::from_async_reader(&mut a2, flen, comp).await?;
                    if a2.c.pos > flen {
                        over_read_at = Some(a2.c.pos);
                    }
                    futures::AsyncSeekExt::seek(&mut a2, futures::io::SeekFrom::Start(flen)).await?;
                    let b = Directory::from_async_reader(&mut a2, flen, comp).await?;
                    Ok::<_, std::io::Error>((a, b))
                })
            });
            if let Some(at) = over_read_at {
                ctx.violation("Directory::from_async_reader", "over-read", "the parser reads beyond the length it was given (async)", &format!("stream position {at} after parsing a directory of {flen} bytes"), mat(list, codec));
            }
            match r {
                Ok(Ok((a, b))) if gen::from_lib_entries(&a) == list && gen::from_lib_entries(&b) == list => ctx.count("back_to_back_parses_ok"),
                Ok(Ok(_)) => ctx.violation("Directory::from_async_reader", "foreign-decode", "two directories stored back to back are not both decoded to their entries (async)", "second parse differs", mat(list, codec)),
                Ok(Err(e)) => ctx.violation("Directory::from_async_reader", "foreign-rejected", "two directories stored back to back: a parse fails (async)", &e.to_string(), mat(list, codec)),
                Err(p) => ctx.panic("Directory::from_async_reader", &p, mat(list, codec)),
            }
        }
        // the sync stream parser over a reader that returns fewer bytes than asked for
        let mut sr = crate::io::Inst::new(foreign.clone());
        sr.c.rsched = Sched::Random(Rng::new(rng.next()), 64);
        match guard(|| Directory::from_reader(&mut sr, flen, comp)) {
            Ok(Ok(d)) => {
                if gen::from_lib_entries(&d) != list {
                    ctx.violation("Directory::from_reader", "foreign-decode", "stream parser decodes the independent encoder's output to different entries", "entries differ", mat(list, codec));
                } else {
                    ctx.count("stream_parser_short_reads_ok");
                }
            }
            Ok(Err(e)) => ctx.violation("Directory::from_reader", "foreign-rejected", "independent encoder's output refused by the stream parser", &e.to_string(), mat(list, codec)),
            Err(p) => ctx.panic("Directory::from_reader", &p, mat(list, codec)),
        }
        ctx.count("async_twins");
    }
}

const FIRST_ID: [u64; 4] = [0, 1, 128, 1 << 32];
const EXTRA: [u64; 4] = [0, 1, 127, 1 << 32];
const RUNS: [u32; 4] = [0, 1, 2, u32::MAX];
const LENS: [u32; 3] = [1, 128, u32::MAX];
const NOFF: u64 = 6; // 0, contiguous, contiguous+1, contiguous-1, 2^62, contiguous+2^32

/// Decode index `k` into the `i`-th entry's parameters; returns the list for combination index.
fn small_list(n: usize, mut k: u64) -> Vec<REntry> {
    let mut v: Vec<REntry> = Vec::with_capacity(n);
    for i in 0..n {
        let idc = (k % 4) as usize;
        k /= 4;
        let run = RUNS[(k % 4) as usize];
        k /= 4;
        let len = LENS[(k % 3) as usize];
        k /= 3;
        let offc = k % NOFF;
        k /= NOFF;
        let (tile_id, contiguous) = if i == 0 {
            (FIRST_ID[idc], 0u64)
        } else {
            let p = v[i - 1];
            (p.tile_id + u64::from(p.run_length.max(1)) + EXTRA[idc], p.offset + u64::from(p.length))
        };
        let offset = match offc {
            0 => 0,
            1 => contiguous,
            2 => contiguous + 1,
            3 => contiguous.saturating_sub(1),
            4 => 1 << 62,
            _ => contiguous + (1 << 32),
        };
        v.push(REntry {
            tile_id,
            offset,
            length: len,
            run_length: run,
        });
    }
    v
}

const PER_ENTRY: u64 = 4 * 4 * 3 * NOFF; // 288

/// Tiny codec-free subset for the Miri interpreter (undefined behaviour in the reached code paths).
fn run_miri(ctx: &mut Ctx) {
    for i in 0..320u64 {
        if ctx.mine(i) {
            ctx.begin(i);
            let mut rng = ctx.rng("c05.miri", i);
            let n = rng.usize(1, 24);
            let list = if i < 160 { small_list((i % 3) as usize, rng.below(PER_ENTRY.pow(2))) } else { gen::gen_entries(&mut rng, n, true, true) };
            check_list(ctx, &list, R::C_NONE, i % 4 == 0, &mut rng);
            ctx.case(entries_fp(&list) ^ 0x3141, true);
            ctx.end(i);
        }
    }
}

pub fn run(ctx: &mut Ctx) {
    if ctx.sub == "miri" {
        run_miri(ctx);
        return;
    }
    let mut case = 0u64;
    // ---- exhaustive small lists
    // n = 0,1,2: all codecs + async; n = 3: None codec (all lists in thorough, strided in quick)
    for n in 0..=3usize {
        let total = PER_ENTRY.pow(n as u32);
        let stride = if n == 3 { ctx.n(61, 1) } else { 1 };
        let block = 20_000u64;
        let nblocks = total.div_ceil(block);
        for blk in 0..nblocks {
            if ctx.mine(case) {
                ctx.begin(case);
                let mut rng = ctx.rng("c05.small", case);
                let a = blk * block;
                let b = ((blk + 1) * block).min(total);
                let mut k = a + (stride - a % stride) % stride;
                let mut cnt = 0u64;
                while k < b {
                    let list = small_list(n, k);
                    if n <= 2 {
                        for codec in R::CODECS {
                            // the slow codecs on a sample of the 2-entry lists only
                            if n == 2 && codec != R::C_NONE && k % ctx.n(97, 7) != 0 {
                                continue;
                            }
                            check_list(ctx, &list, codec, n < 2 || k % 31 == 0, &mut rng);
                        }
                    } else {
                        check_list(ctx, &list, R::C_NONE, false, &mut rng);
                    }
                    cnt += 1;
                    k += stride;
                }
                ctx.enumerated(cnt, cnt);
                ctx.add(&format!("small_lists_n{n}"), cnt);
                ctx.end(case);
            }
            case += 1;
        }
    }
    ctx.extra("small_list_value_sets", json!({"first_id": FIRST_ID, "id_gap": EXTRA, "run_length": RUNS, "length": LENS, "offset": ["0", "contiguous", "contiguous+1", "contiguous-1", "2^62", "contiguous+2^32"]}));
    ctx.extra("exhaustive_small_lists", json!(if ctx.quick() { "n<=2 complete; n=3 every 61st" } else { "n<=3 complete" }));

    // ---- entry counts steered onto varint-width and power-of-two boundaries
    let counts: [usize; 14] = [127, 128, 129, 255, 256, 16383, 16384, 16385, 65535, 65536, 65537, 70_000, 131_071, 131_073];
    for (k, cnt) in counts.iter().enumerate() {
        if ctx.mine(case) {
            ctx.begin(case);
            let mut rng = ctx.rng("c05.counts", k as u64);
            let mut list = gen::gen_entries(&mut rng, *cnt, true, false);
            while list.len() < *cnt {
                // the generator stops early when ids run out of the domain; extend densely
                let last = *list.last().expect("non-empty");
                list.push(REntry {
                    tile_id: last.tile_id + u64::from(last.run_length.max(1)),
                    offset: last.offset + u64::from(last.length),
                    length: 1 + (list.len() % 200) as u32,
                    run_length: 1,
                });
            }
            for codec in R::CODECS {
                if codec == R::C_BROTLI && *cnt > 20_000 && ctx.quick() {
                    continue; // brotli quality 11 needs seconds for these
                }
                check_list(ctx, &list, codec, codec == R::C_NONE, &mut rng);
            }
            ctx.case(entries_fp(&list) ^ 0xb0, true);
            ctx.count("boundary_count_lists");
            ctx.max("boundary_list_entries", list.len() as u64);
            ctx.end(case);
        }
        case += 1;
    }
    // ---- very regular long lists: tens of thousands of entries that compress to a few dozen bytes
    for (k, cnt) in [4_000usize, 16_000, 24_000, 100_000].iter().enumerate() {
        if ctx.mine(case) {
            ctx.begin(case);
            let mut rng = ctx.rng("c05.regular", k as u64);
            let len = rng.range(1, 500) as u32;
            let start = rng.below(100);
            let list: Vec<REntry> = (0..*cnt as u64)
                .map(|i| REntry {
                    tile_id: start + i,
                    offset: i * u64::from(len),
                    length: len,
                    run_length: 1,
                })
                .collect();
            for codec in R::CODECS {
                check_list(ctx, &list, codec, true, &mut rng);
            }
            ctx.case(entries_fp(&list) ^ 0xc5, true);
            ctx.count("regular_long_lists");
            ctx.end(case);
        }
        case += 1;
    }
    // ---- lists whose UNCOMPRESSED encoding begins with the magic bytes of a compressed stream
    // (count, first id and first delta chosen so that the varints spell 1f 8b 08 / 28 b5 2f fd / 78 9c)
    let magic: [(&str, usize, u64, u64); 4] = [("gzip", 31, 11 + 128, 1), ("gzip-deflate", 31, 11 + 8 * 128, 1), ("zstd", 40, 0x35 + (0x2f << 7), 0x7d + 128), ("zlib", 120, 28 + 128, 1)];
    for (k, (name, cnt, first_id, delta)) in magic.iter().enumerate() {
        if ctx.mine(case) {
            ctx.begin(case);
            let mut rng = ctx.rng("c05.magic", k as u64);
            let mut id = *first_id;
            let list: Vec<REntry> = (0..*cnt as u64)
                .map(|i| {
                    if i == 1 {
                        id += delta;
                    } else if i > 1 {
                        id += 1 + rng.below(3);
                    }
                    REntry { tile_id: id, offset: i * 10, length: 10, run_length: 1 }
                })
                .collect();
            let spec = R::dir_encode(&list);
            let expect: &[u8] = match *name {
                "gzip" => &[0x1f, 0x8b],
                "gzip-deflate" => &[0x1f, 0x8b, 0x08],
                "zstd" => &[0x28, 0xb5, 0x2f, 0xfd],
                _ => &[0x78, 0x9c],
            };
            if !spec.starts_with(expect) {
                ctx.inconclusive(&format!("magic-prefix list for {name} does not start with the magic bytes"));
            }
            for codec in R::CODECS {
                check_list(ctx, &list, codec, true, &mut rng);
            }
            ctx.case(entries_fp(&list) ^ 0xd7, true);
            ctx.count("lists_whose_plain_encoding_starts_with_a_codec_magic");
            ctx.end(case);
        }
        case += 1;
    }
    // ---- random lists
    let nrand = ctx.n(240, 20_000);
    for i in 0..nrand {
        if ctx.mine(case) {
            ctx.begin(case);
            let mut rng = ctx.rng("c05.random", i);
            let n = match i % 6 {
                0 => rng.usize(1, 10),
                1 | 2 => rng.usize(10, 300),
                3 | 4 => rng.usize(300, 3000),
                _ => rng.usize(3000, ctx.n(10_000, 100_000) as usize),
            };
            let list = gen::gen_entries(&mut rng, n, true, true);
            let codec = R::CODECS[(i % 4) as usize];
            check_list(ctx, &list, codec, i % 3 == 0, &mut rng);
            ctx.case(entries_fp(&list) ^ u64::from(codec), list.len() >= 2);
            ctx.max("random_list_entries", list.len() as u64);
            if ctx.want_sample() {
                ctx.sample(mat(&list, codec));
            }
            ctx.end(case);
        }
        case += 1;
    }
}
