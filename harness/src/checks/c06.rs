//! C06 — leaf-directory spill keeps the 16 KiB root budget and the exact mapping.

use crate::gen::{self, entries_fp};
use crate::io::{AInst, Inst, Pend, Sched};
use crate::obs::{guard, Ctx};
use crate::refimpl::{self as R, REntry};
use crate::rng::Rng;
use futures::executor::block_on;
use pmtiles2::util::{write_directories, write_directories_async, WriteDirsOverflowStrategy};
use pmtiles2::Directory;
use serde_json::{json, Value};

pub const ROOT_BUDGET: usize = 16384 - 127;

fn tile_entries(rng: &mut Rng, n: usize, entropy: bool) -> Vec<REntry> {
    let mut v: Vec<REntry> = Vec::with_capacity(n);
    let mut id = rng.below(1000);
    let mut off = 0u64;
    for _ in 0..n {
        let len = if entropy { rng.log_range(1, 1 << 20) as u32 } else { rng.range(1, 100) as u32 };
        let run = if rng.chance(1, 6) { rng.range(2, 9) as u32 } else { 1 };
        let offset = if entropy && rng.chance(1, 4) {
            rng.below(1 << 40)
        } else if rng.chance(1, 40) && !v.is_empty() {
            // exactly k * 2^32 bytes behind (or in front of) the previous entry's end: not contiguous, but aliased under 32-bit arithmetic
            let k = rng.range(1, 3) << 32;
            if rng.chance(1, 2) || off < k {
                off + k
            } else {
                off - k
            }
        } else {
            off
        };
        let (offset, len) = match v.last() {
            // not minimal but valid: continues the predecessor's run (same bytes, next id) as a separate entry
            Some(p) if rng.chance(1, 60) && p.tile_id + u64::from(p.run_length) == id => (p.offset, p.length),
            _ => (offset, len),
        };
        v.push(REntry {
            tile_id: id,
            offset,
            length: len,
            run_length: run,
        });
        off = offset + u64::from(len);
        id += u64::from(run) + if entropy { rng.log_range(1, 1 << 24) } else { rng.below(3) };
    }
    v
}

/// A valid tile-entry list whose `None` encoding has exactly `target` bytes.
/// Like `steer`, but every entry has a non-contiguous offset >= 2^36 (6-byte varints) and id deltas up to 2^40.
pub fn steer_wide(rng: &mut Rng, target: usize) -> Option<Vec<REntry>> {
    let mut v: Vec<REntry> = Vec::new();
    let mut id = rng.below(100);
    for _ in 0..200_000 {
        let enc = R::dir_encoded_len(&v);
        if enc == target {
            return Some(v);
        }
        if enc > target {
            v.pop();
            continue;
        }
        let diff = target - enc;
        if diff >= 16 || v.is_empty() {
            id += if rng.chance(1, 3) { rng.range(1 << 35, 1 << 40) } else { rng.log_range(1, 1 << 20) };
            let k = v.len() as u64;
            v.push(REntry {
                tile_id: id,
                offset: (1 << 36) + 1000 * k + rng.below(7),
                length: rng.range(1, 127) as u32,
                run_length: 1,
            });
            id += 1;
        } else {
            let d = diff.min(4);
            let val: u32 = [128, 16384, 1 << 21, 1 << 28][d - 1];
            let Some(e) = v.iter_mut().rev().find(|e| e.length < 128) else { return None };
            e.length = val;
        }
    }
    None
}

pub fn steer(rng: &mut Rng, target: usize) -> Option<Vec<REntry>> {
    let mut v: Vec<REntry> = Vec::new();
    let mut id = rng.below(100);
    let fix_offsets = |v: &mut Vec<REntry>| {
        let mut off = 0u64;
        for e in v.iter_mut() {
            e.offset = off;
            off += u64::from(e.length);
        }
    };
    for _ in 0..200_000 {
        let enc = R::dir_encoded_len(&v);
        if enc == target {
            return Some(v);
        }
        if enc > target {
            v.pop();
            // shrink nothing else; fall through to widening on the next round
            continue;
        }
        let diff = target - enc;
        if diff >= 7 || v.is_empty() {
            let delta = rng.log_range(1, 1 << 20);
            id += delta;
            v.push(REntry {
                tile_id: id,
                offset: 0,
                length: rng.range(1, 127) as u32,
                run_length: 1,
            });
            id += 1;
        } else {
            // widen the length varint of an entry that is still one byte wide
            let d = diff.min(4);
            let val: u32 = [128, 16384, 1 << 21, 1 << 28][d - 1];
            let Some(e) = v.iter_mut().rev().find(|e| e.length < 128) else { return None };
            e.length = val;
        }
        fix_offsets(&mut v);
    }
    None
}

fn mat(list: &[REntry], codec: u8, start: Option<usize>, asyncm: bool) -> Value {
    json!({"codec": R::codec_name(codec), "entries": list.len(), "start_size": start, "async": asyncm,
           "none_encoding_bytes": R::dir_encoded_len(list), "fingerprint": entries_fp(list),
           "head": list.iter().take(4).map(|e| json!([e.tile_id, e.offset, e.length, e.run_length])).collect::<Vec<_>>()})
}

/// Run write_directories on a recording stream and judge root + leaf section.
pub fn check_write(ctx: &mut Ctx, list: &[REntry], codec: u8, start: Option<usize>, asyncm: bool, rng: &mut Rng) {
    let comp = gen::comp(codec);
    let lib_entries = gen::to_lib_entries(list);
    let strategy = start.map(|s| WriteDirsOverflowStrategy::OnlyLeafPointers { start_size: Some(s) });
    let s0: usize = *rng.pick(&[0usize, 127, 1000]);
    // the stream may already hold (stale) bytes behind the write position: a re-used buffer, a file that was not truncated
    let stale: usize = *rng.pick(&[0usize, 0, 100, 40_000]);
    let prefill = vec![0x33u8; s0 + stale];
    let api = if asyncm { "util::write_directories_async" } else { "util::write_directories" };
    let m = mat(list, codec, start, asyncm);
    if rng.chance(1, 8) {
        // failed directory writes on this thread right before
        crate::checks::common::failing_calls_before(rng, None);
        ctx.count("writes_preceded_by_failed_calls");
    }
    let (res, data, pos, nops) = if asyncm {
        let mut out = AInst::recording(prefill);
        out.c.pos = s0 as u64;
        out.pend = Pend::Random(Rng::new(rng.next()), 1, 5);
        let r = guard(|| block_on(write_directories_async(&mut out, &lib_entries, comp, strategy)));
        (r, out.c.data, out.c.pos, out.c.nops)
    } else {
        let mut out = Inst::recording(prefill);
        out.c.pos = s0 as u64;
        let r = guard(|| write_directories(&mut out, &lib_entries, comp, strategy));
        (r, out.c.data, out.c.pos, out.c.nops)
    };
    let _ = nops;
    let leaves = match res {
        Ok(Ok(l)) => l,
        Ok(Err(e)) => {
            ctx.violation(api, "error", "writing a valid entry list failed", &e.to_string(), m);
            return;
        }
        Err(p) => {
            ctx.panic(api, &p, m);
            return;
        }
    };
    let fail = |ctx: &mut Ctx, class: &str, detail: &str, what: String| {
        ctx.violation(api, class, detail, &what, m.clone());
    };
    if (pos as usize) < s0 || pos as usize > data.len() {
        fail(ctx, "position", "stream position is not at the end of the root directory", format!("start {s0}, position {pos}, stream {} bytes", data.len()));
        return;
    }
    let root = &data[s0..pos as usize];
    if data[..s0].iter().any(|b| *b != 0x33) {
        fail(ctx, "position", "bytes before the start position were modified", String::from("prefix modified"));
    }
    if root.len() > ROOT_BUDGET {
        fail(
            ctx,
            "root-budget",
            "root directory exceeds 16257 bytes",
            format!("root directory has {} bytes (budget {ROOT_BUDGET}); leaf section {} bytes", root.len(), leaves.len()),
        );
        return;
    }
    ctx.max("root_bytes", root.len() as u64);
    let dec = |raw: &[u8], what: &str| -> Result<Vec<REntry>, String> {
        let (plain, used) = R::codec_decompress_consumed(codec, raw, R::DECOMP_LIMIT).map_err(|e| format!("{what}: {e}"))?;
        if used != raw.len() {
            return Err(format!("{what}: codec stream consumes {used} of {} bytes", raw.len()));
        }
        let (e, n) = R::dir_decode(&plain).map_err(|e| format!("{what}: {e}"))?;
        if n != plain.len() {
            return Err(format!("{what}: directory consumes {n} of {} plain bytes", plain.len()));
        }
        Ok(e)
    };
    let root_entries = match dec(root, "root directory") {
        Ok(e) => e,
        Err(e) => {
            fail(ctx, "root-undecodable", "root directory bytes [start, position) do not decode as exactly one directory", e);
            return;
        }
    };
    // what the single-directory encoding of the whole list is (library's own encoder)
    // (by the matching twin: the async codec adapters emit different, equally valid, streams)
    let single_len = if asyncm {
        let mut v = futures::io::Cursor::new(Vec::new());
        match block_on(Directory::from(lib_entries.clone()).to_async_writer(&mut v, comp)) {
            Ok(()) => v.into_inner().len(),
            Err(_) => usize::MAX,
        }
    } else {
        let mut v = Vec::new();
        match Directory::from(lib_entries.clone()).to_writer(&mut v, comp) {
            Ok(()) => v.len(),
            Err(_) => usize::MAX,
        }
    };
    if leaves.is_empty() {
        ctx.count("fits_in_root");
        if root_entries != list {
            fail(ctx, "mapping", "single root directory differs from the input list", format!("{} entries decoded, {} given", root_entries.len(), list.len()));
            return;
        }
        if codec == R::C_NONE && R::dir_encoded_len(list) > ROOT_BUDGET {
            fail(ctx, "no-spill", "list does not fit but no leaf section was produced", format!("encoding has {} bytes", R::dir_encoded_len(list)));
        }
        if single_len != root.len() {
            fail(ctx, "mapping", "root differs from the single-directory encoding", format!("root {} bytes, single directory {single_len}", root.len()));
        }
        ctx.max("largest_unspilled_root", root.len() as u64);
    } else {
        ctx.count("spilled");
        if single_len <= ROOT_BUDGET {
            fail(
                ctx,
                "needless-spill",
                "the list fits in one root directory but a leaf section was produced",
                format!("single directory encoding has {single_len} bytes (budget {ROOT_BUDGET})"),
            );
        }
        if codec == R::C_NONE && R::dir_encoded_len(list) <= ROOT_BUDGET {
            fail(ctx, "needless-spill", "the list fits in one root directory but a leaf section was produced", format!("none encoding has {} bytes", R::dir_encoded_len(list)));
        }
        let mut all: Vec<REntry> = Vec::with_capacity(list.len());
        let mut tiled = 0u64;
        let mut next_off = 0u64;
        let mut contiguous = true;
        for p in &root_entries {
            if p.run_length != 0 {
                fail(ctx, "root-not-pointers", "root contains a tile entry although a leaf section exists", format!("root entry {p:?}"));
                return;
            }
            let a = p.offset as usize;
            let Some(b) = a.checked_add(p.length as usize) else { return };
            if b > leaves.len() {
                fail(ctx, "pointer-range", "leaf pointer reaches outside the leaf section", format!("pointer [{a},{b}) in a section of {} bytes", leaves.len()));
                return;
            }
            let leaf = match dec(&leaves[a..b], "leaf directory") {
                Ok(l) => l,
                Err(e) => {
                    fail(ctx, "pointer-length", "leaf pointer's [offset, offset+length) does not decode as exactly one directory", e);
                    return;
                }
            };
            match leaf.first() {
                Some(f) if f.tile_id == p.tile_id => {}
                other => {
                    fail(
                        ctx,
                        "pointer-id",
                        "leaf pointer does not carry its leaf's first tile id",
                        format!("pointer id {}, leaf starts with {:?}", p.tile_id, other.map(|e| e.tile_id)),
                    );
                    return;
                }
            }
            if p.offset != next_off {
                contiguous = false;
            }
            next_off = p.offset + u64::from(p.length);
            tiled += u64::from(p.length);
            all.extend(leaf);
        }
        if all != list {
            let at = all.iter().zip(list.iter()).position(|(a, b)| a != b).unwrap_or(all.len().min(list.len()));
            fail(
                ctx,
                "mapping",
                "resolving root and leaves does not reproduce the original entries in order",
                format!("{} entries resolved, {} given; first difference at index {at}", all.len(), list.len()),
            );
            return;
        }
        // observation only (not demanded by the statement)
        if contiguous && tiled == leaves.len() as u64 {
            ctx.count("obs.leaves_tile_the_section");
        } else {
            ctx.count("obs.leaves_do_not_tile_the_section");
        }
        ctx.max("leaves_in_one_spill", root_entries.len() as u64);
    }
    ctx.count("writes_judged");
    if asyncm {
        ctx.count("async_writes");
    }
}

pub fn run(ctx: &mut Ctx) {
    let mut case = 0u64;
    // (the last two: "one leaf for everything", the natural extreme values)
    let starts: [Option<usize>; 9] = [None, Some(1), Some(2), Some(7), Some(4096), Some(1_000_000), Some(33), Some(usize::MAX), Some(usize::MAX / 2 + 1)];
    // ---- exact size steering for Compression::None around the window (16257, 16384]
    for target in [16256usize, 16257, 16258, 16300, 16383, 16384, 16385, 127, 128] {
        for rep in 0..ctx.n(2, 12) {
            if ctx.mine(case) {
                ctx.begin(case);
                let mut rng = ctx.rng("c06.steer", target as u64 * 100 + rep);
                match steer(&mut rng, target) {
                    Some(list) => {
                        assert_eq!(R::dir_encoded_len(&list), target);
                        for (k, st) in starts.iter().enumerate() {
                            check_write(ctx, &list, R::C_NONE, *st, (k + rep as usize) % 2 == 1, &mut rng);
                        }
                        ctx.count(&format!("steered.{target}"));
                        ctx.case(entries_fp(&list) ^ target as u64, true);
                        if ctx.want_sample() {
                            ctx.sample(json!({"kind": "size-steered", "none_encoding_bytes": target, "entries": list.len()}));
                        }
                    }
                    None => ctx.inconclusive(&format!("size steering to {target} bytes failed")),
                }
                ctx.end(case);
            }
            case += 1;
        }
    }
    // ---- the same boundary with wide values (offsets >= 2^36, id deltas up to 2^40: 6-byte varints)
    for target in [16_250usize, 16_257, 16_258, 16_260, 16_265, 16_300] {
        if ctx.mine(case) {
            ctx.begin(case);
            let mut rng = ctx.rng("c06.steer_wide", target as u64);
            match steer_wide(&mut rng, target) {
                Some(list) => {
                    assert_eq!(R::dir_encoded_len(&list), target);
                    check_write(ctx, &list, R::C_NONE, None, false, &mut rng);
                    check_write(ctx, &list, R::C_NONE, Some(7), true, &mut rng);
                    ctx.count("steered_wide");
                    ctx.case(entries_fp(&list) ^ 0x5700, true);
                }
                None => ctx.inconclusive(&format!("wide size steering to {target} bytes failed")),
            }
            ctx.end(case);
        }
        case += 1;
    }
    // ---- bracketing for the codecs: smallest prefix of a fixed entropy list that spills, +-2 entries
    for codec in [R::C_GZIP, R::C_BROTLI, R::C_ZSTD] {
        for rep in 0..ctx.n(2, 10) {
            if ctx.mine(case) {
                ctx.begin(case);
                let mut rng = ctx.rng("c06.bracket", u64::from(codec) * 100 + rep);
                let full = tile_entries(&mut rng, 12_000, true);
                let comp = gen::comp(codec);
                let size = |n: usize| -> usize {
                    let mut v = Vec::new();
                    let _ = Directory::from(gen::to_lib_entries(&full[..n])).to_writer(&mut v, comp);
                    v.len()
                };
                let (mut lo, mut hi) = (1usize, full.len());
                if size(hi) <= ROOT_BUDGET {
                    ctx.inconclusive("bracketing: entropy list never spills");
                } else {
                    // sizes are not strictly monotone under compression; find *a* boundary
                    while hi - lo > 1 {
                        let mid = (lo + hi) / 2;
                        if size(mid) > ROOT_BUDGET {
                            hi = mid;
                        } else {
                            lo = mid;
                        }
                    }
                    for n in lo.saturating_sub(2)..=(hi + 2).min(full.len()) {
                        let st = starts[(n + rep as usize) % starts.len()];
                        check_write(ctx, &full[..n], codec, st, n % 2 == 0, &mut rng);
                        ctx.case(entries_fp(&full[..n]) ^ u64::from(codec), true);
                    }
                    ctx.count(&format!("bracketed.{}", R::codec_name(codec)));
                }
                ctx.end(case);
            }
            case += 1;
        }
    }
    // ---- few entries, all of them as wide as varints get (id gaps ~2^50, offsets up to 2^61, lengths around 2^28): lists of
    // 700...1015 entries that nevertheless exceed the root budget (estimates of "16 bytes per entry" are wrong for them)
    for (k, n) in [700usize, 760, 800, 900, 1000, 1015, 1016, 1024, 1025].iter().enumerate() {
        for asyncm in [false, true] {
            if ctx.mine(case) {
                ctx.begin(case);
                let mut rng = ctx.rng("c06.wide-few", k as u64 * 2 + u64::from(asyncm));
                let mut id = rng.below(1000);
                let list: Vec<REntry> = (0..*n)
                    .map(|_| {
                        id += rng.range(1 << 49, 1 << 51);
                        REntry { tile_id: id, offset: rng.range(1 << 56, 1 << 61), length: rng.range(1 << 28, (1 << 32) - 1) as u32, run_length: 1 }
                    })
                    .collect();
                for codec in [R::C_NONE, R::CODECS[1 + k % 3]] {
                    check_write(ctx, &list, codec, None, asyncm, &mut rng);
                }
                ctx.case(entries_fp(&list) ^ 0xf3, true);
                ctx.count("wide_lists_of_few_entries");
                ctx.end(case);
            }
            case += 1;
        }
    }
    // ---- the same clauses through whole-archive writes, also when the archive does not start at stream position 0
    for k in 0..ctx.n(8, 64) {
        if ctx.mine(case) {
            ctx.begin(case);
            let mut rng = ctx.rng("c06.archive", k);
            let codec = R::CODECS[(k % 4) as usize];
            let nt = if codec == R::C_NONE { rng.usize(2200, 5000) } else { 6000 };
            let l = crate::checks::c15::spill_logical(&mut rng, codec, nt);
            let p: u64 = *rng.pick(&[0u64, 1, 777, 20_000]);
            let asyncm = (k / 4) % 2 == 1;
            let m = json!({"archive": l.describe(), "start_position": p, "async": asyncm});
            let (res, data, pos) = if asyncm {
                let mut s = AInst::new(vec![0x44; p as usize]);
                s.c.pos = p;
                if k % 2 == 1 {
                    // a sink that accepts only part of most writes
                    s.c.wsched = Sched::Random(crate::rng::Rng::new(rng.next()), 3000);
                }
                let r = guard(|| block_on(l.build_async().to_async_writer(&mut s)));
                (r, s.c.data, s.c.pos)
            } else {
                let mut s = Inst::new(vec![0x44; p as usize]);
                s.c.pos = p;
                if k % 2 == 1 {
                    s.c.wsched = Sched::Random(crate::rng::Rng::new(rng.next()), 3000);
                }
                let r = guard(|| l.build().to_writer(&mut s));
                (r, s.c.data, s.c.pos)
            };
            let api = if asyncm { "PMTiles::to_async_writer" } else { "PMTiles::to_writer" };
            match res {
                Err(pn) => ctx.panic(api, &pn, m),
                Ok(Err(e)) => ctx.violation(api, "error", "writing a leaf-spilling archive failed", &e.to_string(), m),
                Ok(Ok(())) => {
                    let end = (pos as usize).min(data.len());
                    let probes = crate::checks::common::lookup_probes(&l, &mut rng, 20);
                    match crate::checks::common::verify_archive_bytes(&data[(p as usize).min(end)..end], &l, &probes) {
                        Ok(v) => {
                            if v.header.leaf_length == 0 {
                                ctx.inconclusive("C06 whole-archive clause: archive did not spill");
                            }
                            if v.header.root_length > ROOT_BUDGET as u64 {
                                ctx.violation(api, "root-budget", "root directory exceeds 16257 bytes (whole archive)", &format!("{} bytes", v.header.root_length), m);
                            }
                            ctx.count("whole_archive_spills_judged");
                        }
                        Err(e) => ctx.violation(
                            api,
                            "mapping",
                            "resolving root and leaves of the written archive does not reproduce the entries (whole archive)",
                            &format!("start position {p}: {e}"),
                            m,
                        ),
                    }
                }
            }
            ctx.case(crate::rng::hash_u64s(&[l.fingerprint(), p]), true);
            ctx.end(case);
        }
        case += 1;
    }
    // ---- whole archives without a codec whose single directory lands just below / above the budget, with metadata of a few
    // KiB in front of it: spill <=> the single-directory encoding exceeds 16257 bytes, whatever else the archive holds
    for (k, n) in [3700usize, 3900, 4000, 4050, 4062, 4063, 4064, 4065, 4100].iter().enumerate() {
        for asyncm in [false, true] {
            if ctx.mine(case) {
                ctx.begin(case);
                let mut rng = ctx.rng("c06.boundary-archive", k as u64 * 2 + u64::from(asyncm));
                let mut l = gen::gen_logical(&mut rng, gen::SizeClass::One, R::C_NONE);
                l.tiles.clear();
                for id in 0..*n as u64 {
                    let len = rng.usize(2, 100);
                    let mut c = rng.bytes(len);
                    c[0] = id as u8;
                    c[1] = (id >> 8) as u8;
                    l.tiles.insert(id, std::rc::Rc::new(c));
                }
                l.meta = gen::json_object(&mut rng, 2, 6);
                l.meta.insert(String::from("attribution"), serde_json::Value::String("© contributors ".repeat(rng.usize(40, 220))));
                l.class = format!("boundary-archive-{n}");
                let api = if asyncm { "PMTiles::to_async_writer" } else { "PMTiles::to_writer" };
                let m = json!({"archive": l.describe(), "async": asyncm});
                let written = if asyncm { guard(|| crate::checks::common::write_async(l.build_async())) } else { guard(|| crate::checks::common::write_sync(l.build())) };
                match written {
                    Err(pn) => ctx.panic(api, &pn, m),
                    Ok(Err(e)) => ctx.violation(api, "error", "writing an archive failed", &e.to_string(), m),
                    Ok(Ok(bytes)) => match crate::checks::common::verify_archive_bytes(&bytes, &l, &[]) {
                        Ok(v) => {
                            let single = R::dir_encoded_len(&v.walk.entries);
                            let spilled = v.header.leaf_length > 0;
                            if single <= ROOT_BUDGET && spilled {
                                ctx.violation(api, "needless-spill", "archive spills into leaf directories although the single directory fits the root budget", &format!("single-directory encoding {single} bytes, metadata {} bytes, leaf section {} bytes", v.header.meta_length, v.header.leaf_length), m);
                            } else if single > ROOT_BUDGET && !spilled {
                                ctx.violation(api, "root-budget", "root directory exceeds 16257 bytes (whole archive)", &format!("{single} bytes"), m);
                            } else {
                                ctx.count(if spilled { "boundary_archives_spilled" } else { "boundary_archives_in_root" });
                            }
                        }
                        Err(e) => ctx.violation(api, "mapping", "resolving root and leaves of the written archive does not reproduce the entries (whole archive)", &e, m),
                    },
                }
                ctx.case(crate::rng::hash_u64s(&[l.fingerprint(), 606]), true);
                ctx.end(case);
            }
            case += 1;
        }
    }
    // ---- very regular long lists: far more than 16257 entries, yet a few hundred bytes once compressed
    for (k, n) in [16_257usize, 16_258, 20_000, 70_000, 200_000].iter().enumerate() {
        for codec in R::CODECS {
            if ctx.mine(case) {
                ctx.begin(case);
                let mut rng = ctx.rng("c06.regular", (k * 10) as u64 + u64::from(codec));
                let len = rng.range(1, 100) as u32;
                let start = rng.below(1000);
                let list: Vec<REntry> = (0..*n as u64)
                    .map(|i| REntry {
                        tile_id: start + i,
                        offset: i * u64::from(len),
                        length: len,
                        run_length: 1,
                    })
                    .collect();
                check_write(ctx, &list, codec, starts[(k + codec as usize) % 2 * 4], k % 2 == 1, &mut rng);
                ctx.case(entries_fp(&list) ^ u64::from(codec), true);
                ctx.count("regular_long_lists");
                ctx.end(case);
            }
            case += 1;
        }
    }
    // ---- random lists 0 .. 10^4 (quick) / 10^5 (thorough) entries, all codecs, all start sizes
    let n = ctx.n(260, 5000);
    for i in 0..n {
        if ctx.mine(case) {
            ctx.begin(case);
            let mut rng = ctx.rng("c06.random", i);
            let codec = R::CODECS[(i % 4) as usize];
            let cnt = match i % 10 {
                0 => rng.usize(0, 3),
                1..=3 => rng.usize(4, 800),
                4..=7 => rng.usize(800, 6000),
                8 => rng.usize(6000, ctx.n(12_000, 40_000) as usize),
                _ => rng.usize(2000, ctx.n(10_000, 100_000) as usize),
            };
            let list = tile_entries(&mut rng, cnt, i % 3 != 0);
            let mut st = starts[((i / 4) % 9) as usize];
            // start size 1 or 2 on huge lists is quadratic in the codec: keep those lists moderate
            if cnt > 8000 && matches!(st, Some(1) | Some(2)) {
                st = Some(7);
            }
            check_write(ctx, &list, codec, st, (i / 2) % 2 == 1, &mut rng);
            ctx.case(entries_fp(&list) ^ u64::from(codec) ^ (st.unwrap_or(0) as u64) << 8, list.len() >= 2);
            ctx.max("entries_in_one_list", list.len() as u64);
            ctx.end(case);
        }
        case += 1;
    }
}
