//! C07 — tile IDs are the specification's Hilbert IDs and convert back exactly; coordinate lookups
//! outside the grid never return another tile's bytes and never crash.

use crate::obs::{guard, Ctx};
use crate::refimpl as R;
use futures::executor::block_on;
use pmtiles2::util::{tile_id, zxy};
use pmtiles2::{Compression, PMTiles, TileType};
use serde_json::json;

fn check_point(ctx: &mut Ctx, z: u8, x: u64, y: u64) {
    let want = R::zxy_to_id(z, x, y);
    match guard(|| tile_id(z, x, y)) {
        Ok(got) => {
            if got != want {
                ctx.violation(
                    "util::tile_id",
                    "wrong-id",
                    "tile_id differs from the specification's Hilbert id",
                    &format!("tile_id({z},{x},{y}) = {got}, specification says {want}"),
                    json!({"z": z, "x": x, "y": y, "got": got, "want": want}),
                );
            }
        }
        Err(p) => ctx.panic("util::tile_id", &p, json!({"z": z, "x": x, "y": y})),
    }
    match guard(|| zxy(want)) {
        Ok(Ok(t)) if t == (z, x, y) => {}
        Ok(other) => ctx.violation(
            "util::zxy",
            "wrong-zxy",
            "zxy differs from the specification's inverse",
            &format!("zxy({want}) = {other:?}, specification says ({z},{x},{y})"),
            json!({"id": want, "want": [z, x, y]}),
        ),
        Err(p) => ctx.panic("util::zxy", &p, json!({"id": want})),
    }
}

fn check_id(ctx: &mut Ctx, id: u64) {
    let want = R::id_to_zxy(id);
    match guard(|| zxy(id)) {
        Ok(got) => match (got, want) {
            (Ok(t), Some(w)) => {
                if t != w {
                    ctx.violation(
                        "util::zxy",
                        "wrong-zxy",
                        "zxy differs from the specification's inverse",
                        &format!("zxy({id}) = {t:?}, specification says {w:?}"),
                        json!({"id": id}),
                    );
                } else {
                    match guard(|| tile_id(t.0, t.1, t.2)) {
                        Ok(back) if back == id => {}
                        Ok(back) => ctx.violation(
                            "util::tile_id",
                            "roundtrip",
                            "tile_id(zxy(id)) != id",
                            &format!("tile_id(zxy({id})) = {back}"),
                            json!({"id": id}),
                        ),
                        Err(p) => ctx.panic("util::tile_id", &p, json!({"id": id})),
                    }
                }
            }
            (Err(_), None) => ctx.count("ids_rejected"),
            (Ok(t), None) => ctx.violation(
                "util::zxy",
                "accepts-invalid-id",
                "zxy returns a coordinate for an id beyond zoom 31",
                &format!("zxy({id}) = {t:?} although the id lies at or beyond the first id of zoom 32"),
                json!({"id": id}),
            ),
            (Err(_), Some(w)) => ctx.violation(
                "util::zxy",
                "rejects-valid-id",
                "zxy rejects a valid id",
                &format!("zxy({id}) is an error, specification says {w:?}"),
                json!({"id": id}),
            ),
        },
        Err(p) => ctx.panic("util::zxy", &p, json!({"id": id})),
    }
}

/// Exhaustive block of consecutive ids [a, b): inverse, forward, adjacency, zoom containment.
fn sweep_ids(ctx: &mut Ctx, a: u64, b: u64, counted: u64) {
    let mut prev: Option<(u8, u64, u64)> = None;
    let mut bad = 0u64;
    for id in a..b {
        let want = R::id_to_zxy(id).expect("valid id");
        let got = zxy(id);
        let ok_inv = matches!(got, Ok(t) if t == want);
        let fwd = tile_id(want.0, want.1, want.2);
        let reffwd = R::zxy_to_id(want.0, want.1, want.2);
        if !ok_inv || fwd != id || reffwd != id {
            bad += 1;
            if reffwd != id {
                ctx.inconclusive("reference Hilbert implementation is not self-consistent");
            }
            ctx.violation(
                "util::tile_id/zxy",
                "sweep-mismatch",
                "exhaustive sweep: library disagrees with the specification",
                &format!("id {id}: zxy -> {got:?} (spec {want:?}), tile_id(spec zxy) -> {fwd}"),
                json!({"id": id}),
            );
            if bad > 5 {
                break;
            }
        }
        // consecutive ids within a zoom are edge-adjacent tiles
        if let (Some(p), Ok(c)) = (prev, got) {
            if p.0 == c.0 {
                let d = p.1.abs_diff(c.1) + p.2.abs_diff(c.2);
                if d != 1 {
                    ctx.violation(
                        "util::zxy",
                        "not-adjacent",
                        "consecutive ids are not edge-adjacent",
                        &format!("ids {} and {id} map to {p:?} and {c:?}", id - 1),
                        json!({"id": id}),
                    );
                }
                ctx.count("adjacency_checked");
            } else {
                // zoom boundary: previous id was the last of its zoom
                if c.0 != p.0 + 1 || id != R::zoom_base(c.0) {
                    ctx.violation(
                        "util::zxy",
                        "zoom-blocks",
                        "zoom blocks are not contiguous and ordered",
                        &format!("ids {} / {id} map to zooms {} / {}", id - 1, p.0, c.0),
                        json!({"id": id}),
                    );
                }
                ctx.count("zoom_boundaries_crossed");
            }
        }
        prev = got.ok();
        // a tile's four children occupy one aligned block of four positions
        if want.0 < 31 && (id & 0x3f) == 0 {
            let (z, x, y) = want;
            let mut kids = [
                tile_id(z + 1, 2 * x, 2 * y),
                tile_id(z + 1, 2 * x + 1, 2 * y),
                tile_id(z + 1, 2 * x, 2 * y + 1),
                tile_id(z + 1, 2 * x + 1, 2 * y + 1),
            ];
            kids.sort_unstable();
            let first = R::zoom_base(z + 1) + 4 * (id - R::zoom_base(z));
            if kids != [first, first + 1, first + 2, first + 3] {
                ctx.violation(
                    "util::tile_id",
                    "children-block",
                    "children do not occupy one aligned block of four",
                    &format!("children of {want:?} (id {id}) have ids {kids:?}, expected block at {first}"),
                    json!({"id": id}),
                );
            }
            ctx.count("children_blocks_checked");
        }
    }
    ctx.enumerated(counted, counted);
    ctx.add("sweep_ids", counted);
}

fn lookup_case(ctx: &mut Ctx, z: u8, x: u64, y: u64) {
    // the in-grid tile the coordinates would alias onto if high bits were ignored
    let za = z.min(31);
    let mask = if za == 0 { 0 } else { (1u64 << za) - 1 };
    let (ax, ay) = (x & mask, y & mask);
    let in_grid = z <= 31 && x <= mask && y <= mask;
    let alias_id = R::zxy_to_id(za, ax, ay);
    let mut ids = vec![alias_id];
    // whatever id the library itself would compute for these coordinates (if it computes one)
    if let Ok(v) = guard(|| tile_id(z, x, y)) {
        ids.push(v);
    }
    // ids a wrapping zoom base would produce, and ids an implementation might use as an "invalid" sentinel
    // (add_tile accepts any u64, so tiles may legitimately be stored under them)
    ids.push(0);
    ids.extend([u64::MAX, u64::MAX - 1, 1 << 63, i64::MAX as u64, u64::from(u32::MAX), R::zoom_base(32)]);
    ids.sort_unstable();
    ids.dedup();
    let mat = json!({"z": z, "x": x, "y": y, "archive_ids": ids, "in_grid": in_grid});
    for asyncm in [false, true] {
        let api = if asyncm { "PMTiles::get_tile_async" } else { "PMTiles::get_tile" };
        let ids2 = ids.clone();
        let r = guard(move || {
            if asyncm {
                let mut pm = PMTiles::new_async(TileType::Png, Compression::None);
                for id in &ids2 {
                    pm.add_tile(*id, id.to_le_bytes().to_vec()).expect("add");
                }
                if !in_grid && z <= 31 {
                    // the in-grid tile these coordinates would alias onto is looked up first, on the same archive
                    let _ = block_on(pm.get_tile_async(ax, ay, za));
                }
                block_on(pm.get_tile_async(x, y, z))
            } else {
                let mut pm = PMTiles::new(TileType::Png, Compression::None);
                for id in &ids2 {
                    pm.add_tile(*id, id.to_le_bytes().to_vec()).expect("add");
                }
                if !in_grid && z <= 31 {
                    let _ = pm.get_tile(ax, ay, za);
                }
                pm.get_tile(x, y, z)
            }
        });
        match r {
            Err(p) => ctx.panic(api, &p, mat.clone()),
            Ok(Ok(Some(b))) => {
                if in_grid {
                    if b != alias_id.to_le_bytes() {
                        ctx.violation(
                            api,
                            "wrong-tile",
                            "in-grid lookup returned the wrong tile",
                            &format!("get_tile(x={x},y={y},z={z}) returned bytes of another tile"),
                            mat.clone(),
                        );
                    }
                    ctx.count("lookup_in_grid_ok");
                } else {
                    ctx.violation(
                        api,
                        "out-of-grid-hit",
                        "lookup with coordinates outside the grid returned a tile",
                        &format!(
                            "get_tile(x={x},y={y},z={z}) does not denote a tile but returned the bytes of tile id {}",
                            u64::from_le_bytes(b.clone().try_into().unwrap_or([0; 8]))
                        ),
                        mat.clone(),
                    );
                }
            }
            Ok(Ok(None)) => {
                if in_grid {
                    ctx.violation(
                        api,
                        "missing-tile",
                        "in-grid lookup found nothing",
                        &format!("get_tile(x={x},y={y},z={z}) = None although the tile was added"),
                        mat.clone(),
                    );
                } else {
                    ctx.count("lookup_out_of_grid_none");
                }
            }
            Ok(Err(_)) => {
                if in_grid {
                    ctx.violation(api, "error-in-grid", "in-grid lookup failed", "get_tile failed for an added tile", mat.clone());
                } else {
                    ctx.count("lookup_out_of_grid_err");
                }
            }
        }
    }
    ctx.case(crate::rng::hash_u64s(&[u64::from(z), x, y, 77]), !in_grid);
}

pub fn run(ctx: &mut Ctx) {
    // ---- 1. exhaustive sweep over all ids of zooms 0..=L
    let max_z: u8 = ctx.n(13, 16) as u8;
    let total = R::zoom_base(max_z + 1);
    let chunk: u64 = 1 << 14;
    let nchunks = total.div_ceil(chunk);
    let mut case = 0u64;
    for c in 0..nchunks {
        if ctx.mine(case) {
            ctx.begin(case);
            let a = c * chunk;
            // overlap by one id so that adjacency across chunk borders is checked too
            let a0 = a.saturating_sub(1);
            let b = (a + chunk).min(total);
            sweep_ids(ctx, a0, b, b - a);
            ctx.end(case);
        }
        case += 1;
    }
    ctx.extra("exhaustive_max_zoom", json!(max_z));
    ctx.extra("exhaustive_ids", json!(total));

    // ---- 2. every zoom 0..=31: corners, edges, single-bit coordinates, random points
    let nrand = ctx.n(3_000, 300_000);
    for z in 0..=31u8 {
        if ctx.mine(case) {
            ctx.begin(case);
            let n: u64 = 1 << z;
            let mut rng = ctx.rng("c07.points", u64::from(z));
            let mut pts: Vec<(u64, u64)> = vec![(0, 0), (n - 1, 0), (0, n - 1), (n - 1, n - 1), (n / 2, n / 2), (n / 2, 0), (0, n / 2)];
            for b in 0..z {
                pts.push((1 << b, 0));
                pts.push((0, 1 << b));
                pts.push((1 << b, 1 << b));
                pts.push((n - 1 - (1 << b), 1 << b));
            }
            for _ in 0..nrand {
                pts.push((rng.below(n), rng.below(n)));
            }
            for (x, y) in pts {
                if x < n && y < n {
                    check_point(ctx, z, x, y);
                    ctx.case(crate::rng::hash_u64s(&[u64::from(z), x, y]), true);
                }
            }
            ctx.add("boundary_and_random_points", nrand + 7 + 4 * u64::from(z));
            ctx.end(case);
        }
        case += 1;
    }

    // ---- 3. ids: zoom block edges +- 1, powers of two +- 1, random, beyond the domain
    if ctx.mine(case) {
        ctx.begin(case);
        let mut ids: Vec<u64> = Vec::new();
        for z in 0..=32u8 {
            let b = R::zoom_base(z);
            for d in [-2i64, -1, 0, 1, 2] {
                ids.push(b.wrapping_add_signed(d));
            }
        }
        // the same edges walked DOWNWARDS, and jumps between distant zooms (call-to-call state must not matter)
        for z in (0..=32u8).rev() {
            let b = R::zoom_base(z);
            for d in [2i64, 1, 0, -1, -2] {
                ids.push(b.wrapping_add_signed(d));
            }
        }
        for z in 1..=31u8 {
            ids.extend([R::zoom_base(z) + 1, R::zoom_base(32 - z), R::zoom_base(z) - 1, R::zoom_base(z), 0]);
        }
        // rejected ids directly followed by ids of the highest zooms (an error path must leave nothing behind)
        for z in [31u8, 30, 29, 1] {
            ids.extend([u64::MAX, R::zoom_base(z) + 5, R::zoom_base(32), R::zoom_base(z), R::zoom_base(32) + 7, R::zoom_base(z + 1) - 1]);
        }
        for p in 0..64u32 {
            let v = 1u64 << p;
            ids.extend([v - 1, v, v.wrapping_add(1)]);
        }
        ids.extend([u64::MAX, u64::MAX - 1, u64::MAX / 2, u64::MAX / 3, u64::MAX / 3 + 1]);
        let mut rng = ctx.rng("c07.ids", 0);
        let dom = crate::gen::id_domain();
        for _ in 0..ctx.n(200_000, 2_000_000) {
            ids.push(match rng.below(3) {
                0 => rng.next(),
                1 => rng.below(dom),
                _ => dom.wrapping_add(rng.below(1 << 20)).wrapping_sub(1 << 19),
            });
        }
        for id in ids {
            check_id(ctx, id);
            ctx.case(crate::rng::hash_u64s(&[id, 3]), true);
        }
        ctx.end(case);
    }
    case += 1;

    // ---- 3b. the conversions from several threads at once (they are pure functions: what one thread computes must not
    // depend on what the others are doing)
    if ctx.mine(case) {
        ctx.begin(case);
        let seed = ctx.rng("c07.threads", 0).next();
        let handles: Vec<_> = (0..8u64)
            .map(|t| {
                std::thread::spawn(move || -> Option<String> {
                    let mut rng = crate::rng::Rng::new(seed ^ t.wrapping_mul(0x9E37_79B9_7F4A_7C15));
                    let dom = crate::gen::id_domain();
                    // every thread keeps coming back to a few ids of its own, interleaved with random ones
                    let own: Vec<u64> = (0..4).map(|_| rng.below(dom)).collect();
                    for k in 0..60_000u64 {
                        // bursts of the same id (whatever is remembered from the previous call is used again), then other ids
                        let id = if k % 16 < 10 { own[(k / 16 % 4) as usize] } else { rng.below(dom) };
                        let want = R::id_to_zxy(id);
                        match zxy(id) {
                            Ok(got) if Some(got) == want.map(|(z, x, y)| (z, x, y)) => {}
                            other => return Some(format!("thread {t}: zxy({id}) = {other:?}, specification says {want:?}")),
                        }
                        if let Some((z, x, y)) = want {
                            match tile_id(z, x, y) {
                                v if v == id => {}
                                v => return Some(format!("thread {t}: tile_id({z},{x},{y}) = {v}, specification says {id}")),
                            }
                        }
                    }
                    None
                })
            })
            .collect();
        for h in handles {
            match h.join() {
                Ok(None) => ctx.add("conversions_from_concurrent_threads_ok", 60_000),
                Ok(Some(e)) => ctx.violation("util::zxy", "thread-dependent", "conversion result depends on what other threads are doing", &e, json!({"threads": 8})),
                Err(_) => ctx.violation("util::zxy", "thread-panic", "a conversion panicked in a thread", "thread panicked", json!({"threads": 8})),
            }
        }
        ctx.case(seed ^ 0x7a7a, true);
        ctx.end(case);
    }
    case += 1;

    // ---- 4. lookups by coordinates, in and out of the grid
    let per = ctx.n(12, 400);
    for z in 0..=255u8 {
        if ctx.mine(case) {
            ctx.begin(case);
            let mut rng = ctx.rng("c07.lookup", u64::from(z));
            let zz = u32::from(z.min(63));
            let n: u64 = if z >= 64 { 0 } else { 1u64 << zz };
            let mut pts: Vec<(u64, u64)> = vec![
                (n, 0),
                (0, n),
                (n, n),
                (n.wrapping_add(1), 0),
                (u64::MAX, 0),
                (0, u64::MAX),
                (u64::MAX, u64::MAX),
                (n.wrapping_mul(2), 0),
                (n.wrapping_mul(3), n.wrapping_mul(5)),
                (1 << 32, 0),
                (0, 1 << 32),
                ((1 << 32) + 1, 1),
            ];
            for _ in 0..per {
                let k = rng.range(1, 1 << 20);
                pts.push((n.wrapping_add(k), rng.below(n.max(1))));
                pts.push((rng.below(n.max(1)), n.wrapping_mul(k)));
                pts.push((rng.next(), rng.next()));
                // in-grid positive controls
                if z <= 31 {
                    pts.push((rng.below(n.max(1)), rng.below(n.max(1))));
                }
            }
            if z == 0 {
                pts.push((0, 0));
            }
            for (x, y) in pts {
                lookup_case(ctx, z, x, y);
            }
            ctx.end(case);
        }
        case += 1;
    }
    if ctx.want_sample() && ctx.shard == 0 {
        ctx.sample(json!({"clause": "sweep", "ids": [0, total - 1], "note": "every id compared with the reference in both directions"}));
        ctx.sample(json!({"clause": "lookup", "z": 2, "x": 4, "y": 0, "archive_ids": [R::zxy_to_id(2, 0, 0)], "expected": "None or Err"}));
        ctx.sample(json!({"clause": "id", "id": R::zoom_base(32), "expected": "Err"}));
    }
}
