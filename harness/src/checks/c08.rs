//! C08 — malformed input is answered with an error value, never a crash (panic, arithmetic
//! overflow, abort on absurd allocation, unbounded recursion / work).

use crate::gen;
use crate::hostile::{self, estimate, MArchive, MDir, BOUNDARY};
use crate::io::{AInst, Inst, Pend};
use crate::obs::{guard, hex_cap, Ctx};
use crate::refimpl::{self as R, RHeader};
use crate::rng::{hash_bytes, Rng};
use futures::executor::block_on;
use pmtiles2::{util, Directory, Header, PMTiles};
use serde_json::{json, Value};
use std::io::Cursor;

fn mat(label: &str, bytes: &[u8]) -> Value {
    json!({"input_class": label, "bytes": hex_cap(bytes, 4096)})
}

fn op_budget(len: usize) -> u64 {
    64 * (len as u64 + 4096) + 2_000_000
}

/// Feed one byte string to the archive-level readers and everything that can be done with the
/// result. Any returned value is accepted; only not returning properly is a refutation.
pub fn exercise_archive(ctx: &mut Ctx, bytes: &[u8], label: &str, class: &str) {
    if ctx.sub == "miri" && bytes.get(97) == Some(&4) {
        // Miri cannot cross the FFI boundary into zstd
        ctx.count("miri_skipped_zstd");
        return;
    }
    let est = estimate(bytes);
    if let Some(dir) = std::env::var_os("PMVERIF_DUMP") {
        // debugging aid: materialise every executed input (use with --only)
        let p = std::path::Path::new(&dir).join(format!("c08_{}_{:016x}.bin", ctx.cur_case(), hash_bytes(bytes)));
        let _ = std::fs::write(p, bytes);
        eprintln!("{label}: {est:?}");
    }
    ctx.count(&format!("class.{class}.inputs"));
    if est.capped {
        // directories legitimately expand past the budget: outside the claim (resource use
        // proportional to declared run lengths is by design)
        ctx.count("outside_claim_over_budget");
        ctx.count(&format!("class.{class}.over_budget"));
        let _ = guard(|| Header::from_bytes(bytes));
        return;
    }
    if ctx.sub == "miri" && (est.tiles > 5_000 || est.visits > 500 || est.max_len > 1 << 20) {
        // sizing, not a verdict: inside the interpreter an expansion of a million ids or a
        // gigabyte zero-fill takes hours; the native layers run these inputs
        ctx.count("miri_skipped_large_expansion");
        return;
    }
    if est.cycle {
        ctx.count("inputs_with_pointer_cycle");
    }
    ctx.max("pointer_depth_seen", u64::from(est.max_depth));
    let m = || mat(label, bytes);
    // --- header
    match guard(|| Header::from_bytes(bytes)) {
        Ok(Ok(_)) => ctx.count("header.ok"),
        Ok(Err(_)) => ctx.count("header.err"),
        Err(p) => ctx.panic("Header::from_bytes", &p, m()),
    }
    // --- full open from bytes (plain cursor), then use the archive
    let opened = guard(|| PMTiles::from_bytes(bytes.to_vec()));
    match opened {
        Err(p) => ctx.panic("PMTiles::from_bytes", &p, m()),
        Ok(Err(_)) => {
            ctx.count("open.err");
            ctx.count(&format!("class.{class}.err"));
        }
        Ok(Ok(mut pm)) => {
            ctx.count("open.ok");
            ctx.count(&format!("class.{class}.ok"));
            let ids: Vec<u64> = match guard(|| {
                let mut v: Vec<u64> = pm.tile_ids().into_iter().copied().collect();
                v.sort_unstable();
                v
            }) {
                Ok(v) => v,
                Err(p) => {
                    ctx.panic("PMTiles::tile_ids", &p, m());
                    Vec::new()
                }
            };
            let mut probe: Vec<u64> = ids.iter().take(4).copied().collect();
            probe.extend(ids.iter().rev().take(2));
            probe.extend([0, 1, u64::MAX, ids.last().map_or(7, |l| l.wrapping_add(1))]);
            for id in probe {
                match guard(|| pm.get_tile_by_id(id)) {
                    Ok(Ok(_)) => ctx.count("lookup.ok"),
                    Ok(Err(_)) => ctx.count("lookup.err"),
                    Err(p) => ctx.panic("PMTiles::get_tile_by_id", &p, m()),
                }
            }
            match guard(|| pm.get_tile(0, 0, 0)) {
                Ok(_) => {}
                Err(p) => ctx.panic("PMTiles::get_tile", &p, m()),
            }
            // re-write the opened archive
            let mut out = Inst::new(Vec::new());
            out.c.op_budget = Some(op_budget(bytes.len()) + 64 * est.plain_bytes);
            match guard(|| pm.to_writer(&mut out)) {
                Ok(Ok(())) => ctx.count("rewrite.ok"),
                Ok(Err(_)) => ctx.count("rewrite.err"),
                Err(p) => ctx.panic("PMTiles::to_writer", &p, m()),
            }
            if out.c.budget_exceeded {
                ctx.violation("PMTiles::to_writer", "unbounded-work", "stream operation budget exceeded while re-writing", "re-writing an opened archive issued more stream operations than the logical budget", m());
            }
        }
    }
    // --- open through an instrumented reader with a logical operation budget
    {
        let mut rd = Inst::new(bytes.to_vec());
        rd.c.op_budget = Some(op_budget(bytes.len()) + 64 * est.plain_bytes);
        let r = guard(|| PMTiles::from_reader(&mut rd).map(|pm| pm.num_tiles()));
        match r {
            Ok(_) => ctx.count("open_reader.returned"),
            Err(p) => ctx.panic("PMTiles::from_reader", &p, m()),
        }
        if rd.c.budget_exceeded {
            ctx.violation(
                "PMTiles::from_reader",
                "unbounded-work",
                "stream operation budget exceeded while opening",
                &format!("opening issued more than {} stream operations on a {}-byte input", rd.c.nops, bytes.len()),
                m(),
            );
        }
    }
    // --- the same bytes behind a prefix, the reader positioned at the archive's first byte (a library may resolve the
    // header's offsets against the stream start or against that position: both interpretations must stay in budget)
    if hash_bytes(bytes) % 4 == 1 && bytes.len() >= 127 {
        let p = 300usize;
        let mut v = vec![0x33u8; p];
        v.extend_from_slice(bytes);
        let mut w = v.clone();
        w[..127].copy_from_slice(&bytes[..127]);
        let est2 = estimate(&w);
        if !est2.capped {
            let mut rd = Inst::new(v);
            rd.c.pos = p as u64;
            rd.c.op_budget = Some(op_budget(bytes.len() + p) + 64 * (est.plain_bytes + est2.plain_bytes));
            let r = guard(|| {
                PMTiles::from_reader(&mut rd).map(|mut pm| {
                    let ids: Vec<u64> = pm.tile_ids().into_iter().take(2).copied().collect();
                    for id in ids {
                        let _ = pm.get_tile_by_id(id);
                    }
                    pm.num_tiles()
                })
            });
            match r {
                Ok(_) => ctx.count("open_behind_prefix.returned"),
                Err(pn) => ctx.panic("PMTiles::from_reader", &pn, m()),
            }
            if rd.c.budget_exceeded {
                ctx.violation("PMTiles::from_reader", "unbounded-work", "stream operation budget exceeded while opening (reader positioned behind a prefix)", "open exceeded the logical operation budget", m());
            }
        }
    }
    // --- partial opens
    let rsel = hash_bytes(bytes) % 4;
    let r = guard(|| match rsel {
        0 => PMTiles::from_bytes_partially(bytes.to_vec(), 3..40).map(|p| p.num_tiles()),
        1 => PMTiles::from_bytes_partially(bytes.to_vec(), ..=u64::MAX).map(|p| p.num_tiles()),
        2 => PMTiles::from_bytes_partially(bytes.to_vec(), 1..).map(|p| p.num_tiles()),
        _ => PMTiles::from_bytes_partially(bytes.to_vec(), ..5).map(|p| p.num_tiles()),
    });
    match r {
        Ok(_) => ctx.count("partial.returned"),
        Err(p) => ctx.panic("PMTiles::from_bytes_partially", &p, m()),
    }
    // --- util::read_directories with the header the reference parsed
    if let Ok(h) = R::header_unpack(bytes) {
        if (1..=4).contains(&h.internal_compression) {
            let comp = gen::comp(h.internal_compression);
            let r = guard(|| {
                let mut c = Cursor::new(bytes);
                util::read_directories(&mut c, comp, (h.root_offset, h.root_length), h.leaf_offset, ..).map(|m| m.len())
            });
            match r {
                Ok(_) => ctx.count("read_directories.returned"),
                Err(p) => ctx.panic("util::read_directories", &p, m()),
            }
            let r = guard(|| Directory::from_bytes(&bytes[(h.root_offset.min(bytes.len() as u64)) as usize..], comp).map(|d| d.len()));
            match r {
                Ok(_) => ctx.count("directory.returned"),
                Err(p) => ctx.panic("Directory::from_bytes", &p, m()),
            }
        }
    }
    // --- async twins (sampled: they share the templates with the sync code)
    if hash_bytes(bytes) % 3 == 0 || class == "metadata-bomb" || class == "declared-content-size" || class == "tiny-metadata" {
        let mut rd = AInst::new(bytes.to_vec());
        rd.c.op_budget = Some(op_budget(bytes.len()) + 64 * est.plain_bytes);
        rd.pend = Pend::Alternate;
        let r = guard(|| {
            block_on(async {
                match PMTiles::from_async_reader(&mut rd).await {
                    Ok(mut pm) => {
                        let ids: Vec<u64> = pm.tile_ids().into_iter().take(3).copied().collect();
                        for id in ids {
                            let _ = pm.get_tile_by_id_async(id).await;
                        }
                        let _ = pm.get_tile_by_id_async(u64::MAX).await;
                        true
                    }
                    Err(_) => false,
                }
            })
        });
        match r {
            Ok(_) => ctx.count("open_async.returned"),
            Err(p) => ctx.panic("PMTiles::from_async_reader", &p, m()),
        }
        if rd.c.budget_exceeded {
            ctx.violation("PMTiles::from_async_reader", "unbounded-work", "stream operation budget exceeded while opening (async)", "async open exceeded the logical operation budget", m());
        }
    }
    ctx.case(hash_bytes(bytes), true);
}

/// Feed a byte string to the directory parser and the decompression helpers with every codec.
pub fn exercise_dir(ctx: &mut Ctx, bytes: &[u8], label: &str) {
    let m = || mat(label, bytes);
    for codec in R::CODECS {
        if ctx.sub == "miri" && codec != R::C_NONE {
            continue;
        }
        let comp = gen::comp(codec);
        match guard(|| Directory::from_bytes(bytes, comp).map(|d| d.len())) {
            Ok(Ok(_)) => ctx.count("dir.ok"),
            Ok(Err(_)) => ctx.count("dir.err"),
            Err(p) => ctx.panic("Directory::from_bytes", &p, m()),
        }
        match guard(|| util::decompress_all(comp, bytes).map(|v| v.len())) {
            Ok(_) => ctx.count("decompress_all.returned"),
            Err(p) => ctx.panic("util::decompress_all", &p, m()),
        }
    }
    let mut a = AInst::new(bytes.to_vec());
    a.pend = Pend::Alternate;
    let len = bytes.len() as u64;
    match guard(|| block_on(Directory::from_async_reader(&mut a, len, pmtiles2::Compression::None)).map(|d| d.len())) {
        Ok(_) => ctx.count("dir_async.returned"),
        Err(p) => ctx.panic("Directory::from_async_reader", &p, m()),
    }
    match guard(|| util::decompress_all(pmtiles2::Compression::Unknown, bytes).is_err()) {
        Ok(true) => {}
        Ok(false) => {}
        Err(p) => ctx.panic("util::decompress_all", &p, m()),
    }
    ctx.case(hash_bytes(bytes) ^ 0xd1, true);
}

fn dir_with(count: u64, ids: &[u64], runs: &[u64], lens: &[u64], offs: &[u64]) -> MDir {
    MDir {
        count,
        ids: ids.to_vec(),
        runs: runs.to_vec(),
        lens: lens.to_vec(),
        offs: offs.to_vec(),
        target: vec![None; offs.len()],
        ..MDir::default()
    }
}

fn base_archive(codec: u8, root: MDir) -> MArchive {
    let mut h = RHeader::default();
    h.internal_compression = codec;
    h.tile_compression = 1;
    MArchive {
        header: h,
        codec,
        root,
        leaves: Vec::new(),
        meta_plain: b"{}".to_vec(),
        meta_codec_override: None,
        meta_raw_stream: None,
        data: vec![7u8; 64],
        fix_header: true,
        header_over: Vec::new(),
        header_bytes_over: Vec::new(),
        truncate: None,
    }
}

/// The crafted corpus: (hazard class, label, archive bytes)
pub fn crafted(rng: &mut Rng, codecs: &[u8], small_only: bool, bombs: bool) -> Vec<(String, String, Vec<u8>)> {
    let mut v: Vec<(String, String, Vec<u8>)> = Vec::new();
    let mut add = |class: &str, label: String, a: &MArchive, rng: &mut Rng| {
        v.push((class.to_string(), label, a.assemble(rng)));
    };
    for &codec in codecs {
        let cn = R::codec_name(codec);
        // entry counts near 2^64
        for count in [1u64 << 60, 1 << 40, 1 << 31, 1 << 27, u64::MAX, (1 << 63) + 1, u64::MAX / 24, u64::MAX / 24 + 1] {
            let a = base_archive(codec, dir_with(count, &[1], &[1], &[1], &[1]));
            add("entry-count", format!("{cn}: entry count {count}"), &a, rng);
        }
        // id deltas summing past 2^64
        let a = base_archive(codec, dir_with(3, &[1 << 63, 1 << 63, 5], &[1, 1, 1], &[1, 1, 1], &[1, 0, 0]));
        add("id-sum-overflow", format!("{cn}: id deltas 2^63+2^63+5"), &a, rng);
        let a = base_archive(codec, dir_with(2, &[u64::MAX, 1], &[1, 1], &[1, 1], &[1, 0]));
        add("id-sum-overflow", format!("{cn}: id deltas MAX+1"), &a, rng);
        // zero first offset
        let a = base_archive(codec, dir_with(1, &[0], &[1], &[5], &[0]));
        add("zero-first-offset", format!("{cn}: first offset varint 0"), &a, rng);
        let a = base_archive(codec, dir_with(2, &[0, 1], &[1, 1], &[5, 5], &[0, 0]));
        add("zero-first-offset", format!("{cn}: first offset varint 0, two entries"), &a, rng);
        // prev.offset + length overflow
        let a = base_archive(codec, dir_with(2, &[0, 1], &[1, 1], &[100, 5], &[u64::MAX, 0]));
        add("offset-sum-overflow", format!("{cn}: contiguous offset after offset 2^64-2"), &a, rng);
        // tile_id + run_length overflow
        let a = base_archive(codec, dir_with(1, &[u64::MAX - 1], &[5], &[5], &[1]));
        add("id-run-overflow", format!("{cn}: tile id 2^64-2 with run length 5"), &a, rng);
        let a = base_archive(codec, dir_with(1, &[u64::MAX], &[1], &[5], &[1]));
        add("id-run-overflow", format!("{cn}: tile id 2^64-1 with run length 1"), &a, rng);
        // tile data offset near 2^64
        for off in [u64::MAX, u64::MAX - 3, 1 << 63] {
            let mut a = base_archive(codec, dir_with(2, &[1, 1], &[1, 1], &[5, 5], &[11, 0]));
            a.header_over.push((6, off));
            add("tile-data-offset", format!("{cn}: tile data offset {off}"), &a, rng);
        }
        // leaf offset near 2^64 with a pointer
        for off in [u64::MAX, u64::MAX - 3, 1 << 63] {
            let mut a = base_archive(codec, dir_with(1, &[1], &[0], &[20], &[11]));
            a.header_over.push((4, off));
            add("leaf-offset", format!("{cn}: leaf directories offset {off}"), &a, rng);
        }
        // metadata / root offsets and lengths near 2^64
        for (f, name) in [(0usize, "root offset"), (1, "root length"), (2, "metadata offset"), (3, "metadata length"), (5, "leaf length"), (7, "data length")] {
            for val in [u64::MAX, u64::MAX - 5, 1 << 63, 1 << 40] {
                let mut a = base_archive(codec, dir_with(1, &[1], &[1], &[5], &[1]));
                a.header_over.push((f, val));
                add("section-bounds", format!("{cn}: {name} {val}"), &a, rng);
            }
        }
        // self-referential leaf pointer: root points at the root's own bytes
        {
            // the pointer must address [root_offset, root_offset+root_length) through leaf_offset
            let mut a = base_archive(codec, dir_with(1, &[1], &[0], &[3], &[1]));
            a.fix_header = true;
            let probe = a.assemble(rng);
            let h = R::header_unpack(&probe).expect("header");
            // set leaf section offset = root offset, pointer offset 0, pointer length = root length
            let mut a2 = base_archive(codec, dir_with(1, &[1], &[0], &[h.root_length], &[1]));
            a2.header_over.push((4, 127));
            // length field influences encoded size; iterate to a fixpoint
            for _ in 0..4 {
                let b = a2.assemble(rng);
                let hh = R::header_unpack(&b).expect("header");
                if a2.root.lens[0] == hh.root_length {
                    break;
                }
                a2.root.lens[0] = hh.root_length;
            }
            add("self-pointer", format!("{cn}: leaf pointer addressing the root directory itself"), &a2, rng);
            // wide self cycle: 40 pointers to itself
            let n = 40usize;
            let ids: Vec<u64> = (0..n).map(|_| 1).collect();
            let mut a3 = base_archive(codec, dir_with(n as u64, &ids, &vec![0; n], &vec![3; n], &vec![1; n]));
            a3.header_over.push((4, 127));
            for _ in 0..6 {
                let b = a3.assemble(rng);
                let hh = R::header_unpack(&b).expect("header");
                if a3.root.lens[0] == hh.root_length {
                    break;
                }
                for l in &mut a3.root.lens {
                    *l = hh.root_length;
                }
            }
            add("wide-self-cycle", format!("{cn}: 40 leaf pointers addressing the root directory itself"), &a3, rng);
        }
        // two-cycle: leaf0 -> leaf1 -> leaf0
        {
            let mut a = base_archive(codec, dir_with(1, &[1], &[0], &[1], &[1]));
            let mut l0 = dir_with(1, &[1], &[0], &[9], &[1]);
            let mut l1 = dir_with(1, &[1], &[0], &[9], &[1]);
            l0.target = vec![None];
            l1.target = vec![Some(0)]; // leaf1 -> leaf0 (earlier leaf: resolved by assemble)
            a.leaves = vec![l0, l1];
            a.root.target = vec![Some(1)];
            // leaf0 -> leaf1 needs leaf1's offset/length: iterate
            for _ in 0..6 {
                let b = a.assemble(rng);
                let h = R::header_unpack(&b).expect("header");
                // decode root to learn leaf1's (offset,len), leaf0 sits at offset 0
                let Ok(rootp) = R::codec_decompress(codec, &b[127..127 + h.root_length as usize], 1 << 20) else { break };
                let Ok((re, _)) = R::dir_decode(&rootp) else { break };
                let (o1, n1) = (re[0].offset, u64::from(re[0].length));
                if a.leaves[0].offs[0] == o1 + 1 && a.leaves[0].lens[0] == n1 {
                    break;
                }
                a.leaves[0].offs[0] = o1 + 1;
                a.leaves[0].lens[0] = n1;
            }
            add("two-cycle", format!("{cn}: two leaf directories pointing at each other"), &a, rng);
        }
        // pointer chains of various lengths (legal but deep: Err or Ok are both fine)
        for links in [3usize, 5, 9, 17, 100, 1000, 30_000, 60_000, 90_000, 100_000] {
            // the very long chains only uncompressed (assembly cost); 100 000 exceeds the visit budget on purpose
            if links >= 30_000 && codec != R::C_NONE || small_only && links > 100 {
                continue;
            }
            let mut a = base_archive(codec, MDir::default());
            // leaf 0 holds a tile; leaf i points to leaf i-1
            a.leaves.push(dir_with(1, &[5], &[1], &[5], &[1]));
            for i in 1..links {
                let mut d = dir_with(1, &[5], &[0], &[1], &[1]);
                d.target = vec![Some(i - 1)];
                a.leaves.push(d);
            }
            let mut root = dir_with(1, &[5], &[0], &[1], &[1]);
            root.target = vec![Some(links - 1)];
            a.root = root;
            add("pointer-chain", format!("{cn}: chain of {links} nested leaf directories"), &a, rng);
        }
        // oversized declared lengths
        let a = base_archive(codec, dir_with(2, &[1, 1], &[1, 1], &[u64::from(u32::MAX), u64::from(u32::MAX)], &[1, 5]));
        add("oversized-length", format!("{cn}: tile length 2^32-1 in a 64-byte data section"), &a, rng);
        // many entries whose declared lengths add up to tens of GiB (a re-write must not reserve their sum)
        // (not in the Miri layer: every lookup of such a tile zero-fills gigabytes inside the interpreter)
        if !small_only {
            let n = 12usize;
            let ids: Vec<u64> = (0..n as u64).map(|i| if i == 0 { 1 } else { 2 }).collect();
            let offs: Vec<u64> = (0..n as u64).map(|i| 1 + i * 3).collect();
            let a = base_archive(codec, dir_with(n as u64, &ids, &vec![1; n], &vec![u64::from(u32::MAX); n], &offs));
            add("oversized-length", format!("{cn}: twelve tiles of declared length 2^32-1 (48 GiB in total) in a 64-byte data section"), &a, rng);
            let n = 3000usize;
            let ids: Vec<u64> = (0..n as u64).map(|i| if i == 0 { 1 } else { 2 }).collect();
            let offs: Vec<u64> = (0..n as u64).map(|i| 1 + i % 60).collect();
            let a = base_archive(codec, dir_with(n as u64, &ids, &vec![1; n], &vec![1 << 30; n], &offs));
            add("oversized-length", format!("{cn}: 3000 tiles of declared length 2^30 (3 TiB in total) in a 64-byte data section"), &a, rng);
        }
        // zstd frames that declare an absurd content size in their header
        if codec == R::C_ZSTD {
            let plain = dir_with(1, &[1], &[1], &[5], &[1]).encode_plain();
            for declared in [1u64 << 60, 1 << 40, (1 << 32) + 5, u64::MAX - 1, plain.len() as u64 + 1] {
                let mut a = base_archive(codec, dir_with(1, &[1], &[1], &[5], &[1]));
                a.root.raw_stream = Some(hostile::zstd_frame_declaring(declared, &plain));
                add("declared-content-size", format!("{cn}: root directory frame declares {declared} bytes of content"), &a, rng);
                let mut a = base_archive(codec, dir_with(1, &[1], &[1], &[5], &[1]));
                a.meta_raw_stream = Some(hostile::zstd_frame_declaring(declared, b"{}"));
                add("declared-content-size", format!("{cn}: metadata frame declares {declared} bytes of content"), &a, rng);
            }
        }
        // run lengths beyond the budget (outside the claim; shows the classifier at work)
        let a = base_archive(codec, dir_with(1, &[1], &[u64::from(u32::MAX)], &[5], &[1]));
        add("huge-run", format!("{cn}: run length 2^32-1"), &a, rng);
        // metadata hazards
        for (name, meta) in [
            ("deep JSON nesting 200", {
                let mut m = vec![b'['; 200];
                m.extend(vec![b']'; 200]);
                m
            }),
            ("deep JSON nesting 100000", {
                let depth = if small_only { 300 } else { 100_000 };
                let mut m = b"{\"a\":".repeat(depth);
                m.extend(b"1");
                m.extend(vec![b'}'; depth]);
                m
            }),
            ("non UTF-8 metadata", vec![0xff, 0xfe, 0x80, 0x00, 0xc3, 0x28]),
            ("truncated JSON", b"{\"a\": [1, 2".to_vec()),
            ("JSON number overflow", b"{\"a\": 1e999999, \"b\": -0, \"c\": 123456789012345678901234567890}".to_vec()),
            ("empty metadata stream", Vec::new()),
        ] {
            let mut a = base_archive(codec, dir_with(1, &[1], &[1], &[5], &[1]));
            a.meta_plain = meta;
            add("metadata", format!("{cn}: {name}"), &a, rng);
        }
        // metadata that expands by three orders of magnitude (52 MB of whitespace around `{}`; thorough tier only: every open
        // parses it)
        if bombs && (codec == R::C_GZIP || codec == R::C_ZSTD) {
            let mut a = base_archive(codec, dir_with(1, &[1], &[1], &[5], &[1]));
            let mut m = vec![b' '; 52_000_000];
            m.extend_from_slice(b"{}");
            m.extend(vec![b'\n'; 2_000_000]);
            a.meta_plain = m;
            add("metadata-bomb", format!("{cn}: metadata expands to 54 MB of whitespace around an empty object"), &a, rng);
        }
        // valid JSON that is not an object, with multi-byte characters starting at every byte offset 1..=70 (error messages that
        // quote an excerpt must not cut a character in half)
        if !small_only || codec == R::C_NONE {
            for pad in 0..70usize {
                let mut a = base_archive(codec, dir_with(1, &[1], &[1], &[5], &[1]));
                a.meta_plain = format!("\"{}{}\"", "a".repeat(pad), "é日😀".repeat(12)).into_bytes();
                add("non-object-metadata", format!("{cn}: metadata is a JSON string with multi-byte characters from byte {}", pad + 1), &a, rng);
            }
            let mut a = base_archive(codec, dir_with(1, &[1], &[1], &[5], &[1]));
            a.meta_plain = format!("[{}]", vec!["\"日本語\""; 30].join(",")).into_bytes();
            add("non-object-metadata", format!("{cn}: metadata is a long JSON array of multi-byte strings"), &a, rng);
        }
        // tiny metadata: every single byte, and every two-byte string that starts a multi-byte UTF-8 sequence, a BOM,
        // or a JSON token
        if (codec == R::C_NONE || codec == R::C_ZSTD) && !small_only {
            for b in 0..=255u8 {
                let mut a = base_archive(codec, dir_with(1, &[1], &[1], &[5], &[1]));
                a.meta_plain = vec![b];
                add("tiny-metadata", format!("{cn}: metadata is the single byte {b:#04x}"), &a, rng);
            }
            {
                for first in [0xEFu8, 0xC3, 0xE2, 0xF0, 0xFE, 0xFF, b'{', b'"', b'['] {
                    for second in 0..=255u8 {
                        let mut a = base_archive(codec, dir_with(1, &[1], &[1], &[5], &[1]));
                        a.meta_plain = vec![first, second];
                        add("tiny-metadata", format!("{cn}: metadata is the two bytes {first:#04x} {second:#04x}"), &a, rng);
                    }
                }
            }
        }
        // wrong codec for a stream / garbage streams
        for other in R::CODECS {
            if other != codec {
                let mut a = base_archive(codec, dir_with(1, &[1], &[1], &[5], &[1]));
                a.root.codec_override = Some(other);
                add("wrong-codec", format!("{cn}: root directory compressed with {}", R::codec_name(other)), &a, rng);
                let mut a = base_archive(codec, dir_with(1, &[1], &[1], &[5], &[1]));
                a.meta_codec_override = Some(other);
                add("wrong-codec", format!("{cn}: metadata compressed with {}", R::codec_name(other)), &a, rng);
            }
        }
        for k in 0..6 {
            let mut a = base_archive(codec, dir_with(1, &[1], &[1], &[5], &[1]));
            a.root.corrupt_at = Some(k * 3);
            add("garbage-stream", format!("{cn}: corrupted root stream at byte {}", k * 3), &a, rng);
        }
        // overlong / unterminated varints
        {
            let mut a = base_archive(codec, dir_with(1, &[1], &[1], &[5], &[1]));
            a.root.cut = 1;
            add("truncated-directory", format!("{cn}: directory one byte short"), &a, rng);
        }
        // header enum / flag bytes
        for (at, val) in [(96usize, 2u8), (96, 255), (97, 0), (97, 5), (98, 9), (99, 200), (7, 2), (7, 4), (0, b'X')] {
            let mut a = base_archive(codec, dir_with(1, &[1], &[1], &[5], &[1]));
            a.header_bytes_over.push((at, val));
            add("header-bytes", format!("{cn}: header byte {at} = {val}"), &a, rng);
        }
    }
    v
}

/// Crafted raw directories (fed to Directory::from_bytes with every codec)
pub fn crafted_dirs() -> Vec<(String, Vec<u8>)> {
    let mut v = Vec::new();
    for count in [1u64 << 60, 1 << 40, 1 << 31, u64::MAX, u64::MAX / 24 + 1] {
        v.push((format!("count {count}"), dir_with(count, &[1], &[1], &[1], &[1]).encode_plain()));
        v.push((format!("count {count} alone"), dir_with(count, &[], &[], &[], &[]).encode_plain()));
    }
    v.push((String::from("zero first offset"), dir_with(1, &[0], &[1], &[5], &[0]).encode_plain()));
    v.push((String::from("id overflow"), dir_with(2, &[u64::MAX, 2], &[1, 1], &[1, 1], &[1, 0]).encode_plain()));
    v.push((String::from("offset overflow"), dir_with(2, &[0, 1], &[1, 1], &[9, 9], &[u64::MAX, 0]).encode_plain()));
    v.push((String::from("unterminated varint"), vec![0xff; 11]));
    v.push((String::from("overlong varint"), vec![0x81, 0x80, 0x80, 0x80, 0x80, 0x80, 0x80, 0x80, 0x80, 0x80, 0x01]));
    v.push((String::from("u32 column with 10-byte varint"), {
        let mut b = vec![1u8, 1];
        b.extend([0xff, 0xff, 0xff, 0xff, 0xff, 0xff, 0xff, 0xff, 0xff, 0x01]);
        b.extend([5, 1]);
        b
    }));
    v.push((String::from("empty"), Vec::new()));
    for declared in [1u64 << 60, 1 << 40, (1 << 32) + 5, u64::MAX - 1, 3] {
        v.push((format!("zstd frame declaring {declared} content bytes"), hostile::zstd_frame_declaring(declared, &[1, 1, 1, 5, 1])));
    }
    v.push((String::from("length zero"), dir_with(1, &[0], &[1], &[0], &[1]).encode_plain()));
    v
}

pub fn run(ctx: &mut Ctx) {
    let mut case = 0u64;
    let miri = ctx.sub == "miri";
    if miri {
        hostile::NO_ZSTD.store(true, std::sync::atomic::Ordering::Relaxed);
    }
    // ---- (a) crafted corpus, one case each
    let corpus = if miri { crafted(&mut ctx.rng("c08.crafted", 0), &[R::C_NONE], true, false) } else { crafted(&mut ctx.rng("c08.crafted", 0), &R::CODECS, false, !ctx.quick()) };
    for (class, label, bytes) in &corpus {
        if miri && bytes.len() > 2000 {
            case += 1;
            continue;
        }
        if ctx.mine(case) {
            ctx.begin(case);
            exercise_archive(ctx, bytes, label, class);
            if ctx.want_sample() && ctx.shard == 0 {
                ctx.sample(json!({"kind": "crafted", "class": class, "label": label, "len": bytes.len()}));
            }
            ctx.end(case);
        }
        case += 1;
    }
    ctx.extra("crafted_corpus_size", json!(corpus.len()));
    for (label, bytes) in crafted_dirs() {
        if ctx.mine(case) {
            ctx.begin(case);
            exercise_dir(ctx, &bytes, &label);
            ctx.end(case);
        }
        case += 1;
    }
    // ids at the boundary of the domain
    if ctx.mine(case) {
        ctx.begin(case);
        let mut rng = ctx.rng("c08.zxy", 0);
        for i in 0..5000u64 {
            let id = if i < BOUNDARY.len() as u64 { BOUNDARY[i as usize] } else { rng.boundary_u64() };
            match guard(|| util::zxy(id)) {
                Ok(_) => ctx.count("zxy.returned"),
                Err(p) => ctx.panic("util::zxy", &p, json!({"id": id})),
            }
        }
        ctx.end(case);
    }
    case += 1;

    // ---- (b) every prefix and every single-byte boundary substitution of small valid archives
    let mut small: Vec<(String, Vec<u8>)> = Vec::new();
    {
        let mut rng = ctx.rng("c08.small", 0);
        small.push((String::from("root-only/none"), MArchive::valid(&mut rng, R::C_NONE, 6, 0, false).assemble(&mut rng)));
        small.push((String::from("leaves/none"), MArchive::valid(&mut rng, R::C_NONE, 8, 3, true).assemble(&mut rng)));
        if !miri {
            small.push((String::from("root-only/gzip"), MArchive::valid(&mut rng, R::C_GZIP, 6, 0, false).assemble(&mut rng)));
        }
        if !ctx.quick() && !miri {
            small.push((String::from("leaves/gzip"), MArchive::valid(&mut rng, R::C_GZIP, 8, 2, false).assemble(&mut rng)));
            small.push((String::from("leaves/brotli"), MArchive::valid(&mut rng, R::C_BROTLI, 8, 2, false).assemble(&mut rng)));
            small.push((String::from("leaves/zstd"), MArchive::valid(&mut rng, R::C_ZSTD, 8, 2, true).assemble(&mut rng)));
        }
    }
    for (name, arch) in &small {
        if miri && !name.ends_with("none") {
            continue;
        }
        // control: the unmodified archive must open
        if PMTiles::from_bytes(arch.clone()).is_err() {
            ctx.inconclusive(&format!("control archive {name} does not open"));
        }
        let step = if miri { 11 } else { 1 };
        for n in (0..arch.len()).step_by(step) {
            if ctx.mine(case) {
                ctx.begin(case);
                exercise_archive(ctx, &arch[..n], &format!("prefix {n} of {name}"), "prefix");
                ctx.end(case);
            }
            case += 1;
        }
        for at in (0..arch.len()).step_by(step) {
            if ctx.mine(case) {
                ctx.begin(case);
                let orig = arch[at];
                for val in [0x00u8, 0x01, 0x7f, 0x80, 0xff, orig.wrapping_add(1), orig.wrapping_sub(1)] {
                    if val == orig {
                        continue;
                    }
                    let mut b = arch.clone();
                    b[at] = val;
                    exercise_archive(ctx, &b, &format!("byte {at} of {name} = {val:#x}"), "substitution");
                }
                ctx.end(case);
            }
            case += 1;
        }
        ctx.add("exhaustive_small_archive_bytes", arch.len() as u64 / ctx.nshards.max(1));
    }
    ctx.extra("small_archives", json!(small.iter().map(|(n, a)| json!({"name": n, "len": a.len()})).collect::<Vec<_>>()));

    // ---- (c) structure-aware mutations
    let nmut = if miri { 200 } else { ctx.n(200_000, 12_000_000) };
    let per_case = 50u64;
    for blk in 0..nmut / per_case {
        if ctx.mine(case) {
            ctx.begin(case);
            let mut rng = ctx.rng("c08.mut", blk);
            for _ in 0..per_case {
                let codec = if miri { R::C_NONE } else { R::CODECS[rng.usize(0, 3)] };
                let n_entries = rng.usize(0, 14);
                let n_leaves = if rng.chance(1, 2) { 0 } else { rng.usize(1, 4) };
                let nested = rng.chance(1, 3);
                let mut a = MArchive::valid(&mut rng, codec, n_entries, n_leaves, nested);
                let label = hostile::mutate(&mut a, &mut rng);
                let bytes = a.assemble(&mut rng);
                let class = label.split(['.', '=', '+']).next().unwrap_or("mut").to_string();
                exercise_archive(ctx, &bytes, &format!("mutation {label} of a valid {} archive", R::codec_name(codec)), &format!("mut-{class}"));
                if rng.chance(1, 10) {
                    // the mutated root directory alone, through the directory parser with every codec
                    let plain = a.root.encode_plain();
                    exercise_dir(ctx, &plain, &format!("directory with {label}"));
                }
                if ctx.want_sample() && ctx.shard == 1 {
                    ctx.sample(json!({"kind": "mutation", "label": label, "codec": R::codec_name(codec), "len": bytes.len()}));
                }
            }
            ctx.end(case);
        }
        case += 1;
    }
    // splices of two valid archives / random garbage
    let nsplice = if miri { 0 } else { ctx.n(2_000, 120_000) };
    for i in 0..nsplice {
        if ctx.mine(case) {
            ctx.begin(case);
            let mut rng = ctx.rng("c08.splice", i);
            let c1 = R::CODECS[rng.usize(0, 3)];
            let a = MArchive::valid(&mut rng, c1, 8, 2, false).assemble(&mut rng);
            let c2 = R::CODECS[rng.usize(0, 3)];
            let b = MArchive::valid(&mut rng, c2, 5, 0, false).assemble(&mut rng);
            let cut_a = rng.usize(0, a.len());
            let cut_b = rng.usize(0, b.len());
            let mut s = a[..cut_a].to_vec();
            s.extend_from_slice(&b[cut_b..]);
            exercise_archive(ctx, &s, "splice of two valid archives", "splice");
            let mut g = a.clone();
            let at = rng.usize(0, g.len() - 1);
            let n = rng.usize(1, 16).min(g.len() - at);
            let noise = rng.bytes(n);
            g[at..at + n].copy_from_slice(&noise);
            exercise_archive(ctx, &g, "valid archive with a random burst", "burst");
            ctx.end(case);
        }
        case += 1;
    }
}
