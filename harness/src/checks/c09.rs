//! C09 — header encoding is exactly 127 bytes and lossless in both directions.

use crate::gen;
use crate::io::{AInst, Inst, Pend, Sched};
use crate::obs::{guard, hex, Ctx};
use crate::refimpl::{self as R, RHeader};
use crate::rng::Rng;
use futures::executor::block_on;
use pmtiles2::Header;
use serde_json::json;

pub fn lib_header(h: &RHeader, coords: [f64; 6]) -> Header {
    let mut l = Header::default();
    l.spec_version = 3;
    l.root_directory_offset = h.root_offset;
    l.root_directory_length = h.root_length;
    l.json_metadata_offset = h.meta_offset;
    l.json_metadata_length = h.meta_length;
    l.leaf_directories_offset = h.leaf_offset;
    l.leaf_directories_length = h.leaf_length;
    l.tile_data_offset = h.data_offset;
    l.tile_data_length = h.data_length;
    l.num_addressed_tiles = h.n_addressed;
    l.num_tile_entries = h.n_entries;
    l.num_tile_content = h.n_contents;
    l.clustered = h.clustered != 0;
    l.internal_compression = gen::comp(h.internal_compression);
    l.tile_compression = gen::comp(h.tile_compression);
    l.tile_type = gen::ttype(h.tile_type);
    l.min_zoom = h.min_zoom;
    l.max_zoom = h.max_zoom;
    l.center_zoom = h.center_zoom;
    l.min_pos.longitude = coords[0];
    l.min_pos.latitude = coords[1];
    l.max_pos.longitude = coords[2];
    l.max_pos.latitude = coords[3];
    l.center_pos.longitude = coords[4];
    l.center_pos.latitude = coords[5];
    l
}

/// Non-coordinate fields of a library header as a reference header (coords zeroed), + degrees.
pub fn lib_to_r(l: &Header) -> (RHeader, [f64; 6]) {
    (
        RHeader {
            root_offset: l.root_directory_offset,
            root_length: l.root_directory_length,
            meta_offset: l.json_metadata_offset,
            meta_length: l.json_metadata_length,
            leaf_offset: l.leaf_directories_offset,
            leaf_length: l.leaf_directories_length,
            data_offset: l.tile_data_offset,
            data_length: l.tile_data_length,
            n_addressed: l.num_addressed_tiles,
            n_entries: l.num_tile_entries,
            n_contents: l.num_tile_content,
            clustered: u8::from(l.clustered),
            internal_compression: gen::comp_code(l.internal_compression),
            tile_compression: gen::comp_code(l.tile_compression),
            tile_type: gen::ttype_code(l.tile_type),
            min_zoom: l.min_zoom,
            max_zoom: l.max_zoom,
            center_zoom: l.center_zoom,
            min_lon: 0,
            min_lat: 0,
            max_lon: 0,
            max_lat: 0,
            center_lon: 0,
            center_lat: 0,
        },
        [
            l.min_pos.longitude,
            l.min_pos.latitude,
            l.max_pos.longitude,
            l.max_pos.latitude,
            l.center_pos.longitude,
            l.center_pos.latitude,
        ],
    )
}

fn zero_coords(mut h: RHeader) -> RHeader {
    h.min_lon = 0;
    h.min_lat = 0;
    h.max_lon = 0;
    h.max_lat = 0;
    h.center_lon = 0;
    h.center_lat = 0;
    h
}

fn with_coords(mut h: RHeader, c: [i32; 6]) -> RHeader {
    h.min_lon = c[0];
    h.min_lat = c[1];
    h.max_lon = c[2];
    h.max_lat = c[3];
    h.center_lon = c[4];
    h.center_lat = c[5];
    h
}

pub fn rand_header(rng: &mut Rng) -> RHeader {
    let mut h = RHeader::default();
    h.root_offset = rng.boundary_u64();
    h.root_length = rng.boundary_u64();
    h.meta_offset = rng.boundary_u64();
    h.meta_length = rng.boundary_u64();
    h.leaf_offset = rng.boundary_u64();
    h.leaf_length = rng.boundary_u64();
    h.data_offset = rng.boundary_u64();
    h.data_length = rng.boundary_u64();
    h.n_addressed = rng.boundary_u64();
    h.n_entries = rng.boundary_u64();
    h.n_contents = rng.boundary_u64();
    h.clustered = rng.below(2) as u8;
    h.internal_compression = rng.below(5) as u8;
    h.tile_compression = rng.below(5) as u8;
    h.tile_type = rng.below(6) as u8;
    h.min_zoom = rng.next() as u8;
    h.max_zoom = rng.next() as u8;
    h.center_zoom = rng.next() as u8;
    h
}

/// decode(b) then encode must give b; decoded fields must equal the reference's.
fn decode_encode(ctx: &mut Ctx, h: &RHeader, detail_checks: bool) -> bool {
    let b = R::header_pack(h);
    let lib = match guard(|| Header::from_bytes(b)) {
        Ok(Ok(l)) => l,
        Ok(Err(e)) => {
            ctx.violation(
                "Header::from_bytes",
                "rejects-valid",
                "valid header rejected",
                &format!("valid 127-byte header rejected: {e}"),
                json!({"header_hex": hex(&b)}),
            );
            return false;
        }
        Err(p) => {
            ctx.panic("Header::from_bytes", &p, json!({"header_hex": hex(&b)}));
            return false;
        }
    };
    let (lr, deg) = lib_to_r(&lib);
    let stored = crate::checks::common::stored_coords(h);
    let mut ok = true;
    if lr != zero_coords(*h) {
        ctx.violation(
            "Header::from_bytes",
            "field-mismatch",
            "parsed integer/enum/bool field differs",
            &format!("parsed fields {lr:?} differ from the encoded header {:?}", zero_coords(*h)),
            json!({"header_hex": hex(&b)}),
        );
        ok = false;
    }
    for i in 0..6 {
        if !gen::coord_denotes(deg[i], stored[i]) {
            ctx.violation(
                "Header::from_bytes",
                "coord-read",
                "stored coordinate read back as a value that does not denote it",
                &format!("stored coordinate {} read as {:?}", stored[i], deg[i]),
                json!({"header_hex": hex(&b), "slot": i}),
            );
            ok = false;
        }
    }
    if detail_checks && h.root_offset % 3 == 0 {
        // earlier calls on this thread whose stream failed (state carried across calls must not leak)
        let mut broken = Inst::new(Vec::new());
        broken.c.fail_from = Some(0);
        let _ = guard(|| lib.to_writer(&mut broken));
        let mut abroken = AInst::new(Vec::new());
        abroken.c.fail_from = Some(0);
        let _ = guard(|| block_on(lib.to_async_writer(&mut abroken)));
        ctx.count("writes_after_a_failed_write");
    }
    let mut out = Vec::new();
    match guard(|| lib.to_writer(&mut out)) {
        Ok(Ok(())) => {}
        Ok(Err(e)) => {
            ctx.violation("Header::to_writer", "error", "serialising a parsed header failed", &e.to_string(), json!({"header_hex": hex(&b)}));
            return false;
        }
        Err(p) => {
            ctx.panic("Header::to_writer", &p, json!({"header_hex": hex(&b)}));
            return false;
        }
    }
    if out.len() != 127 {
        ctx.violation(
            "Header::to_writer",
            "length",
            "serialised header is not 127 bytes",
            &format!("serialised header has {} bytes", out.len()),
            json!({"header_hex": hex(&b)}),
        );
        return false;
    }
    if out[..] != b[..] {
        let at = (0..127).find(|i| out[*i] != b[*i]).unwrap_or(0);
        let slot = if (102..118).contains(&at) {
            format!("coordinate slot {}", (at - 102) / 4)
        } else if (119..127).contains(&at) {
            format!("coordinate slot {}", 4 + (at - 119) / 4)
        } else {
            format!("byte {at}")
        };
        let detail = if at >= 102 { "decode→encode changes a stored coordinate" } else { "decode→encode changes header bytes" };
        ctx.violation(
            "Header::to_writer",
            "rewrite-drift",
            detail,
            &format!(
                "parsing a valid header and serialising it again changes {slot}: stored coordinates {:?} written back as {:?}",
                stored,
                R::header_unpack(&out).map(|h| crate::checks::common::stored_coords(&h)).ok()
            ),
            json!({"header_hex": hex(&b), "rewritten_hex": hex(&out)}),
        );
        ok = false;
    }
    if detail_checks {
        // async twins and consumed-bytes clause
        let mut tail = b.to_vec();
        tail.extend_from_slice(&[0xAB; 40]);
        let mut rd = Inst::recording(tail.clone());
        let mut rng = Rng::new(h.root_offset ^ 0x55);
        rd.c.rsched = Sched::Random(rng.clone(), 9);
        match guard(|| Header::from_reader(&mut rd)) {
            Ok(Ok(l2)) => {
                if rd.c.pos != 127 {
                    ctx.violation(
                        "Header::from_reader",
                        "consumed",
                        "reader does not consume exactly 127 bytes",
                        &format!("reader positioned at {} after reading a header", rd.c.pos),
                        json!({"header_hex": hex(&b)}),
                    );
                    ok = false;
                }
                if lib_to_r(&l2).0 != lr {
                    ctx.violation("Header::from_reader", "fragmented-differs", "fragmented read differs", "header read through short reads differs", json!({"header_hex": hex(&b)}));
                    ok = false;
                }
            }
            Ok(Err(e)) => {
                ctx.violation("Header::from_reader", "rejects-valid", "valid header rejected under short reads", &e.to_string(), json!({"header_hex": hex(&b)}));
                ok = false;
            }
            Err(p) => ctx.panic("Header::from_reader", &p, json!({"header_hex": hex(&b)})),
        }
        let mut ard = AInst::recording(tail);
        ard.c.rsched = Sched::Random(rng.clone(), 9);
        ard.pend = Pend::Random(Rng::new(rng.next()), 1, 3);
        match guard(|| block_on(Header::from_async_reader(&mut ard))) {
            Ok(Ok(l3)) => {
                let (r3, d3) = lib_to_r(&l3);
                if r3 != lr || d3.map(f64::to_bits) != deg.map(f64::to_bits) {
                    ctx.violation("Header::from_async_reader", "async-differs", "async reader returns different fields", "async header differs from sync header", json!({"header_hex": hex(&b)}));
                    ok = false;
                }
                if ard.c.pos != 127 {
                    ctx.violation("Header::from_async_reader", "consumed", "async reader does not consume exactly 127 bytes", &format!("position {}", ard.c.pos), json!({"header_hex": hex(&b)}));
                    ok = false;
                }
            }
            Ok(Err(e)) => {
                ctx.violation("Header::from_async_reader", "rejects-valid", "valid header rejected by async reader", &e.to_string(), json!({"header_hex": hex(&b)}));
                ok = false;
            }
            Err(p) => ctx.panic("Header::from_async_reader", &p, json!({"header_hex": hex(&b)})),
        }
        let mut aw = AInst::new(Vec::new());
        aw.c.wsched = Sched::Random(rng.clone(), 11);
        aw.pend = Pend::Alternate;
        match guard(|| block_on(lib.to_async_writer(&mut aw))) {
            Ok(Ok(())) => {
                if aw.c.data != out {
                    ctx.violation("Header::to_async_writer", "async-differs", "async writer emits different bytes", "async header bytes differ from sync header bytes", json!({"header_hex": hex(&b)}));
                    ok = false;
                }
            }
            Ok(Err(e)) => {
                ctx.violation("Header::to_async_writer", "error", "async header write failed", &e.to_string(), json!({"header_hex": hex(&b)}));
                ok = false;
            }
            Err(p) => ctx.panic("Header::to_async_writer", &p, json!({"header_hex": hex(&b)})),
        }
        // the sync writer into a sink that accepts only part of each write
        let mut sw = Inst::new(Vec::new());
        sw.c.wsched = Sched::Random(rng.clone(), 40);
        match guard(|| lib.to_writer(&mut sw)) {
            Ok(Ok(())) => {
                if sw.c.data != out {
                    ctx.violation("Header::to_writer", "short-writes-differ", "writer emits different bytes into a sink with short writes", &format!("{} bytes arrived, 127 expected", sw.c.data.len()), json!({"header_hex": hex(&b)}));
                    ok = false;
                }
            }
            Ok(Err(e)) => {
                ctx.violation("Header::to_writer", "error", "header write into a short-writing sink failed", &e.to_string(), json!({"header_hex": hex(&b)}));
                ok = false;
            }
            Err(p) => ctx.panic("Header::to_writer", &p, json!({"header_hex": hex(&b)})),
        }
        // the conversion entry point derived for the type (`TryFrom<&[u8]>`): same value for the full header, an error (never a
        // panic) for every truncation
        match guard(|| Header::try_from(&b[..])) {
            Ok(Ok(h2)) => {
                let mut o2 = Vec::new();
                if h2.to_writer(&mut o2).is_err() || o2 != out {
                    ctx.violation("Header::try_from", "differs", "TryFrom<&[u8]> yields a different header than from_bytes", "re-serialisation differs", json!({"header_hex": hex(&b)}));
                    ok = false;
                }
            }
            Ok(Err(_)) => {
                ctx.violation("Header::try_from", "rejects-valid", "valid header rejected by TryFrom<&[u8]>", "Err", json!({"header_hex": hex(&b)}));
                ok = false;
            }
            Err(p) => ctx.panic("Header::try_from", &p, json!({"header_hex": hex(&b)})),
        }
        for cut in [rng.usize(0, 126), rng.usize(100, 126), 126] {
            match guard(|| Header::try_from(&b[..cut]).is_ok()) {
                Ok(false) => ctx.count("truncations_rejected_by_try_from"),
                Ok(true) => {
                    ctx.violation("Header::try_from", "accepts-invalid", "a truncated header is accepted by TryFrom<&[u8]>", &format!("{cut} bytes"), json!({"header_hex": hex(&b[..cut])}));
                    ok = false;
                }
                Err(p) => ctx.panic("Header::try_from", &p, json!({"header_hex": hex(&b[..cut]), "bytes": cut})),
            }
        }
        ctx.count("detail_checks");
    }
    ok
}

fn must_reject(ctx: &mut Ctx, bytes: &[u8], why: &str) {
    let r = guard(|| Header::from_bytes(bytes));
    match r {
        Ok(Err(_)) => ctx.count("rejections_ok"),
        Ok(Ok(_)) => ctx.violation(
            "Header::from_bytes",
            "accepts-invalid",
            why,
            &format!("header accepted although {why}"),
            json!({"bytes_hex": hex(bytes)}),
        ),
        Err(p) => ctx.panic("Header::from_bytes", &p, json!({"bytes_hex": hex(bytes), "why": why})),
    }
    let mut a = AInst::new(bytes.to_vec());
    a.pend = Pend::Alternate;
    match guard(|| block_on(Header::from_async_reader(&mut a))) {
        Ok(Err(_)) => ctx.count("rejections_ok_async"),
        Ok(Ok(_)) => ctx.violation(
            "Header::from_async_reader",
            "accepts-invalid",
            why,
            &format!("header accepted by async reader although {why}"),
            json!({"bytes_hex": hex(bytes)}),
        ),
        Err(p) => ctx.panic("Header::from_async_reader", &p, json!({"bytes_hex": hex(bytes), "why": why})),
    }
}

/// Tiny subset for the Miri interpreter (deku/bitvec are unsafe-heavy).
fn run_miri(ctx: &mut Ctx) {
    for i in 0..200u64 {
        if ctx.mine(i) {
            ctx.begin(i);
            let mut rng = ctx.rng("c09.miri", i);
            let mut h = rand_header(&mut rng);
            h = with_coords(h, [rng.next() as i32, rng.next() as i32, 21, -21, i32::MAX, i32::MIN]);
            decode_encode(ctx, &h, i % 4 == 0);
            let b = R::header_pack(&h);
            if i % 10 == 0 {
                must_reject(ctx, &b[..(i as usize) % 127], "fewer than 127 bytes were supplied");
                let mut bad = b;
                bad[7] = 4;
                must_reject(ctx, &bad, "the version is not 3");
            }
            ctx.case(crate::rng::hash_bytes(&b) ^ 0x9, true);
            ctx.end(i);
        }
    }
}

pub fn run(ctx: &mut Ctx) {
    if ctx.sub == "miri" {
        run_miri(ctx);
        return;
    }
    let mut case = 0u64;
    // ---- 1. stored coordinate sweep (decode -> encode): six slots per header
    let stride: u64 = ctx.n(37, 1);
    let total: u64 = (1u64 << 32).div_ceil(stride); // number of stored values visited
    let per_block: u64 = 6 * 4096;
    let nblocks = total.div_ceil(per_block);
    let base = RHeader {
        internal_compression: R::C_GZIP,
        tile_compression: R::C_NONE,
        tile_type: 1,
        clustered: 1,
        ..RHeader::default()
    };
    let mut sweep_ok = true;
    for blk in 0..nblocks {
        if ctx.mine(case) {
            ctx.begin(case);
            let first = blk * per_block;
            let last = ((blk + 1) * per_block).min(total);
            let mut k = first;
            let mut bad = 0;
            while k < last {
                let mut c = [0i32; 6];
                for (j, slot) in c.iter_mut().enumerate() {
                    // value index k+j -> stored value (wrapping over the i32 range)
                    let idx = (k + j as u64).min(total - 1);
                    *slot = (idx * stride).wrapping_add(0x8000_0000) as u32 as i32;
                }
                if !decode_encode(ctx, &with_coords(base, c), false) {
                    bad += 1;
                    sweep_ok = false;
                    if bad > 20 {
                        break;
                    }
                }
                k += 6;
            }
            let n = last - first;
            ctx.enumerated(n, n);
            ctx.add("stored_values_swept", n);
            ctx.end(case);
        }
        case += 1;
    }
    ctx.extra("stored_value_stride", json!(stride));
    ctx.extra("stored_sweep_exhaustive", json!(stride == 1));
    let _ = sweep_ok;

    // ---- 2. boundary stored values + random integer fields + all valid enum codes, with detail checks
    if ctx.mine(case) {
        ctx.begin(case);
        let mut rng = ctx.rng("c09.fields", 0);
        let bvals: [i32; 16] = [
            0, 1, -1, 21, -21, 7, i32::MAX, i32::MIN, i32::MAX - 1, i32::MIN + 1, 1_800_000_000, -1_800_000_000, 900_000_000, -900_000_000,
            1_799_999_999, 123_456_789,
        ];
        for i in 0..ctx.n(3_000, 60_000) {
            let mut h = rand_header(&mut rng);
            let mut c = [0i32; 6];
            for s in &mut c {
                *s = if rng.chance(1, 2) { *rng.pick(&bvals) } else { rng.next() as i32 };
            }
            h = with_coords(h, c);
            if i < 30 {
                // all valid enum codes
                h.internal_compression = (i % 5) as u8;
                h.tile_compression = ((i / 5) % 5) as u8;
                h.tile_type = (i % 6) as u8;
            }
            // structured specials: groups of related fields "not set" (zero) or equal, as real writers leave them
            match i % 16 {
                1 => {
                    h.center_zoom = 0;
                    h.center_lon = 0;
                    h.center_lat = 0;
                }
                2 => {
                    h.min_lon = 0;
                    h.min_lat = 0;
                    h.max_lon = 0;
                    h.max_lat = 0;
                }
                3 => {
                    h = with_coords(h, [0; 6]);
                    h.center_zoom = 0;
                    h.min_zoom = rng.next() as u8;
                }
                4 => {
                    h.min_zoom = 0;
                    h.max_zoom = 0;
                    h.center_zoom = 0;
                }
                5 => {
                    h.max_lon = h.min_lon;
                    h.max_lat = h.min_lat;
                    h.center_lon = h.min_lon;
                    h.center_lat = h.min_lat;
                }
                6 => {
                    h.n_addressed = 0;
                    h.n_entries = 0;
                    h.n_contents = 0;
                    h.leaf_offset = 0;
                    h.leaf_length = 0;
                }
                7 => {
                    h.meta_offset = 0;
                    h.meta_length = 0;
                    h.data_length = 0;
                }
                _ => {}
            }
            decode_encode(ctx, &h, true);
            let fp = crate::rng::hash_bytes(&R::header_pack(&h));
            ctx.case(fp, true);
            if i == 0 && ctx.want_sample() {
                ctx.sample(json!({"clause": "decode→encode", "header_hex": hex(&R::header_pack(&h))}));
            }
        }
        ctx.end(case);
    }
    case += 1;

    // ---- 3. degrees -> stored: nearest multiple of 1e-7; output length; field layout
    let ndeg = ctx.n(40, 400);
    for blk in 0..ndeg {
        if ctx.mine(case) {
            ctx.begin(case);
            let mut rng = ctx.rng("c09.degrees", blk);
            for _ in 0..4096 {
                let h = rand_header(&mut rng);
                let deg = gen::gen_coords(&mut rng);
                let lib = lib_header(&h, deg);
                let mut out = Vec::new();
                match guard(|| lib.to_writer(&mut out)) {
                    Ok(Ok(())) => {}
                    Ok(Err(e)) => {
                        ctx.violation("Header::to_writer", "error", "serialising failed", &e.to_string(), json!({"deg": deg}));
                        continue;
                    }
                    Err(p) => {
                        ctx.panic("Header::to_writer", &p, json!({"deg": deg}));
                        continue;
                    }
                }
                if out.len() != 127 {
                    ctx.violation("Header::to_writer", "length", "serialised header is not 127 bytes", &format!("{} bytes", out.len()), json!({"deg": deg}));
                    continue;
                }
                let Ok(u) = R::header_unpack(&out) else {
                    ctx.violation("Header::to_writer", "layout", "serialised header lacks magic/version", "reference cannot unpack the header", json!({"hex": hex(&out)}));
                    continue;
                };
                if zero_coords(u) != zero_coords(h) {
                    ctx.violation(
                        "Header::to_writer",
                        "layout",
                        "serialised header differs from the v3 field layout",
                        &format!("reference unpacks {:?} but fields were {:?}", zero_coords(u), zero_coords(h)),
                        json!({"hex": hex(&out)}),
                    );
                }
                let st = crate::checks::common::stored_coords(&u);
                for i in 0..6 {
                    if !gen::coord_nearest(deg[i], st[i]) {
                        ctx.violation(
                            "Header::to_writer",
                            "coord-nearest",
                            "degrees are not stored as the nearest multiple of 1e-7",
                            &format!("coordinate {:?} degrees stored as {} (nearest is {})", deg[i], st[i], (deg[i] * 1e7).round()),
                            json!({"deg": deg[i], "stored": st[i]}),
                        );
                    }
                }
                ctx.case(crate::rng::hash_bytes(&out), true);
                ctx.count("degree_headers");
            }
            ctx.end(case);
        }
        case += 1;
    }

    // ---- 4. rejections
    if ctx.mine(case) {
        ctx.begin(case);
        let mut rng = ctx.rng("c09.reject", 0);
        let mut h = rand_header(&mut rng);
        h.internal_compression = 2;
        let good = R::header_pack(&h);
        match guard(|| Header::from_bytes(good)) {
            Ok(Ok(_)) => {}
            _ => ctx.inconclusive("rejection clause: control header not accepted"),
        }
        for i in 0..7 {
            for delta in [1u8, 0x20, 0x80, 0xff] {
                let mut b = good;
                b[i] = b[i].wrapping_add(delta);
                must_reject(ctx, &b, "the magic number is wrong");
            }
        }
        for v in 0..=255u8 {
            if v == 3 {
                continue;
            }
            let mut b = good;
            b[7] = v;
            must_reject(ctx, &b, "the version is not 3");
        }
        for v in 5..=255u8 {
            let mut b = good;
            b[97] = v;
            must_reject(ctx, &b, "the internal compression code is unknown to the format");
            let mut b = good;
            b[98] = v;
            must_reject(ctx, &b, "the tile compression code is unknown to the format");
        }
        for v in 6..=255u8 {
            let mut b = good;
            b[99] = v;
            must_reject(ctx, &b, "the tile type code is unknown to the format");
        }
        for n in 0..127usize {
            must_reject(ctx, &good[..n], "fewer than 127 bytes were supplied");
        }
        ctx.enumerated(28 + 255 + 2 * 251 + 250 + 127, 28 + 255 + 2 * 251 + 250 + 127);
        ctx.sample(json!({"clause": "reject", "example": "version byte 4", "expected": "Err"}));
        ctx.end(case);
    }
}
