//! C10 — deduplication and run-length encoding are exact and minimal.

use crate::checks::arch::{check_store, Arch, Model};
use crate::checks::common::strict_opts;
use crate::gen::{self, Logical, SizeClass};
use crate::obs::{guard, Ctx};
use crate::refimpl as R;
use crate::rng::{hash_u64s, Rng};
use serde_json::{json, Value};
use std::collections::{BTreeMap, HashMap, HashSet};
use std::rc::Rc;

/// Logical archives with hard duplication patterns.
fn dup_logical(rng: &mut Rng, i: u64, codec: u8) -> Logical {
    let class = match i % 9 {
        0 => SizeClass::Medium,
        1 if i % 27 == 1 => SizeClass::Spill,
        _ => SizeClass::Small,
    };
    let mut l = gen::gen_logical(rng, class, codec);
    if class == SizeClass::Spill {
        // leaf-spilling archives WITH runs: every few entries a run of 2-9 identical consecutive ids (runs straddle any
        // boundary a writer may draw by counting entries or addressed tiles)
        let keys: Vec<u64> = l.tiles.keys().copied().collect();
        for w in keys.windows(2).step_by(5) {
            let c = l.tiles[&w[0]].clone();
            let r = rng.range(1, 8).min(w[1] - w[0] - 1);
            for d in 1..=r {
                l.tiles.insert(w[0] + d, c.clone());
            }
        }
        l.class.push_str("/with-runs");
        return l;
    }
    let ids: Vec<u64> = l.tiles.keys().copied().collect();
    if ids.is_empty() {
        return l;
    }
    let pool: Vec<Rc<Vec<u8>>> = {
        let mut p: Vec<Rc<Vec<u8>>> = l.tiles.values().take(6).cloned().collect();
        // near duplicates sharing length / prefix
        let base = p[0].as_ref().clone();
        let mut nd = base.clone();
        let last = nd.len() - 1;
        nd[last] ^= 1;
        p.push(Rc::new(nd));
        let mut longer = base;
        longer.push(0);
        p.push(Rc::new(longer));
        p
    };
    if i % 480 == 277 {
        // a content of 2^24 bytes or more shared by several ids
        return gen::gen_huge_tiles(rng, codec, (1 << 24) + rng.clone().usize(0, 3));
    }
    if i % 240 == 37 {
        // contents above 1 MiB (sometimes above 2^24 bytes) present as reader-backed AND in-memory tiles
        return gen::gen_logical(rng, SizeClass::HugeTiles, codec);
    }
    if i % 48 == 29 {
        // n singles that cannot merge (three contents in rotation), then a short run: the run starts at entry number n, with n
        // on / next to a power of two (block-wise directory building)
        let n = [131_071u64, 131_072, 65_535, 65_536, 262_143, 131_073][((i / 48) % 6) as usize];
        l.tiles.clear();
        let start = rng.below(1 << 20);
        let short: Vec<Rc<Vec<u8>>> = (0..3u8).map(|j| Rc::new(vec![j, 0x11, 0x22])).collect();
        for k in 0..n {
            l.tiles.insert(start + k, short[(k % 3) as usize].clone());
        }
        let tail = Rc::new(vec![9u8, 9, 9, 9]);
        for k in 0..3 {
            l.tiles.insert(start + n + k, tail.clone());
        }
        l.class = format!("singles-{n}-then-run");
        return l;
    }
    if i % 240 == 61 {
        // more than 2^18 distinct contents, part of them recurring later under non-adjacent ids
        return crate::checks::c16::many_contents(rng, codec, 266_000);
    }
    if i % 24 == 13 {
        // one very long run whose length sits on a power-of-two / integer-width boundary (the last one beyond 2^20)
        let n = [255u64, 256, 257, 65_535, 65_536, 65_537, 70_000, 131_073, 1_048_613][((i / 24) % 9) as usize];
        l.tiles.clear();
        // (every third time the run ends on the very last tile id, u64::MAX)
        let at_top = (i / 24) % 3 == 0 && n <= 70_000;
        let start = if at_top { u64::MAX - (n - 1) } else { rng.below(1 << 30) };
        // short contents: the oracle hashes every tile's content
        let a = Rc::new(pool[0].iter().take(24).copied().collect::<Vec<u8>>());
        let mut bb = a.as_ref().clone();
        bb.push(0xB);
        for k in 0..n {
            l.tiles.insert(start + k, a.clone());
        }
        if at_top {
            l.tiles.insert(start - 2, Rc::new(bb));
        } else {
            l.tiles.insert(start + n, Rc::new(bb));
        }
        l.class = format!("long-run-{n}{}", if at_top { "-ending-on-u64-max" } else { "" });
        return l;
    }
    match i % 6 {
        0 => {
            // a dense block of adjacent ids: runs A A A B B A A ... (run boundaries everywhere)
            l.tiles.clear();
            let start = rng.below(1 << 20);
            let n = rng.usize(10, 400);
            let mut cur = rng.usize(0, pool.len() - 1);
            for k in 0..n as u64 {
                if rng.chance(1, 3) {
                    cur = rng.usize(0, pool.len() - 1);
                }
                l.tiles.insert(start + k, pool[cur].clone());
            }
        }
        1 => {
            // alternating A B A B on adjacent ids (nothing mergeable, everything deduplicated)
            l.tiles.clear();
            let start = rng.below(1 << 20);
            for k in 0..rng.range(4, 200) {
                l.tiles.insert(start + k, pool[(k % 2) as usize].clone());
            }
        }
        2 => {
            // duplicates across zooms with gaps (same content, non adjacent ids)
            for (k, id) in ids.iter().enumerate() {
                if k % 3 == 0 {
                    l.tiles.insert(*id, pool[0].clone());
                }
            }
            for z in 1..20u8 {
                l.tiles.insert(R::zoom_base(z), pool[0].clone());
                l.tiles.insert(R::zoom_base(z) + 1, pool[0].clone());
                l.tiles.insert(R::zoom_base(z) + 3, pool[1 % pool.len()].clone());
            }
        }
        3 => {
            // one content everywhere on a dense block -> one entry with a long run
            l.tiles.clear();
            let start = R::zoom_base(rng.range(2, 30) as u8) - 3; // run crosses a zoom boundary
            for k in 0..rng.range(2, 3000) {
                l.tiles.insert(start + k, pool[0].clone());
            }
        }
        _ => {}
    }
    l
}

pub fn archive_clauses(bytes: &[u8], l: &Logical) -> Result<(u64, u64), String> {
    let v = R::validate(bytes, &strict_opts())?;
    // distinct contents of the logical archive
    let mut distinct: HashMap<&[u8], ()> = HashMap::new();
    for c in l.tiles.values() {
        distinct.insert(c.as_slice(), ());
    }
    let sum: u64 = distinct.keys().map(|c| c.len() as u64).sum();
    if v.header.data_length != sum {
        return Err(format!(
            "tile data section has {} bytes, the {} distinct contents sum to {sum}",
            v.header.data_length,
            distinct.len()
        ));
    }
    if v.header.n_contents != distinct.len() as u64 {
        return Err(format!("header counts {} tile contents, there are {} distinct contents", v.header.n_contents, distinct.len()));
    }
    // identical content <=> identical offset
    let mut off_of: HashMap<&[u8], u64> = HashMap::new();
    let mut content_at: HashMap<u64, &[u8]> = HashMap::new();
    for (id, (off, len)) in &v.walk.tiles {
        let Some(c) = l.tiles.get(id) else { return Err(format!("tile {id} addressed but never added")) };
        if *len as usize != c.len() {
            return Err(format!("tile {id}: entry length {len} != content length {}", c.len()));
        }
        if let Some(o) = off_of.get(c.as_slice()) {
            if o != off {
                return Err(format!("identical content stored at two offsets ({o} and {off}; tile {id})"));
            }
        } else {
            off_of.insert(c.as_slice(), *off);
        }
        if let Some(c2) = content_at.get(off) {
            if *c2 != c.as_slice() {
                return Err(format!("offset {off} shared by different contents (tile {id})"));
            }
        } else {
            content_at.insert(*off, c.as_slice());
        }
    }
    if v.walk.tiles.len() != l.tiles.len() {
        return Err(format!("{} tiles addressed, {} added", v.walk.tiles.len(), l.tiles.len()));
    }
    // no two adjacent entries could be merged further
    for w in v.walk.entries.windows(2) {
        let (a, b) = (w[0], w[1]);
        if b.tile_id == a.tile_id + u64::from(a.run_length) && a.offset == b.offset && a.length == b.length {
            return Err(format!(
                "entries for tile ids {} (run {}) and {} (run {}) address the same content and are adjacent: they could be merged",
                a.tile_id, a.run_length, b.tile_id, b.run_length
            ));
        }
    }
    // minimal number of entries = number of maximal runs of consecutive ids with identical content
    let mut runs = 0u64;
    let mut prev: Option<(u64, &[u8])> = None;
    for (id, c) in &l.tiles {
        match prev {
            Some((pid, pc)) if pid + 1 == *id && pc == c.as_slice() => {}
            _ => runs += 1,
        }
        prev = Some((*id, c.as_slice()));
    }
    if v.walk.entries.len() as u64 != runs {
        return Err(format!("{} tile entries written, the minimum is {runs} (maximal runs)", v.walk.entries.len()));
    }
    Ok((runs, distinct.len() as u64))
}

pub fn run(ctx: &mut Ctx) {
    let n = ctx.n(1200, 60_000);
    for i in 0..n {
        if !ctx.mine(i) {
            continue;
        }
        ctx.begin(i);
        let mut rng = ctx.rng("c10", i);
        let codec = R::CODECS[(i % 4) as usize];
        let mut l = dup_logical(&mut rng, i, codec);
        if i % 16 == 3 || i % 16 == 10 {
            // textual contents (hex of the original bytes): the adds go through String / &str / Vec<u8>
            for c in l.tiles.values_mut() {
                let cut = c.len().min(40);
                *c = Rc::new(crate::obs::hex(&c[..cut]).into_bytes());
            }
            l.class.push_str("/text");
            ctx.count("archives_with_textual_contents");
        }
        let mat: Value = json!({"archive": l.describe(), "pattern": i % 6, "history": i % 4});
        let nontrivial = l.has_duplicates();
        // build along one of four histories; the store report is checked at every quiescent point
        let built = guard(|| -> Result<Vec<u8>, String> {
            let ids: Vec<u64> = l.tiles.keys().copied().collect();
            let mut model = Model::default();
            let mut arch = if i % 8 < 4 { Arch::empty() } else { Arch::empty_async() };
            arch.apply_settings(&l);
            let split = ids.len() / 2;
            let hist = i % 4;
            let add_all = |arch: &mut Arch, model: &mut Model, ids: &[u64], check_every: usize| -> Result<(), String> {
                for (k, id) in ids.iter().enumerate() {
                    let c = l.tiles[id].as_ref().clone();
                    arch.add(*id, c.clone()).map_err(|e| e.to_string())?;
                    model.add(*id, c);
                    if k % check_every == 0 {
                        check_store(&arch.report(), model).map_err(|e| format!("builder: {e}"))?;
                    }
                }
                check_store(&arch.report(), model).map_err(|e| format!("builder: {e}"))
            };
            // the store report walks every id: keep the number of quiescent-point checks bounded for huge archives
            let every = if ids.len() > 20_000 { ids.len() / 3 } else { (ids.len() / 40).max(1) };
            match hist {
                0 => add_all(&mut arch, &mut model, &ids, every)?,
                1 => {
                    // half, save+reopen (tiles become reader-backed), other half (duplicates of backed contents)
                    // which tiles go first: the lower half, the UPPER half (the later adds then sit in front of
                    // reader-backed runs), or alternating blocks of three ids (adds in front of, behind and between them)
                    let (first, second): (Vec<u64>, Vec<u64>) = match (i / 4) % 3 {
                        0 => (ids[..split].to_vec(), ids[split..].to_vec()),
                        1 => (ids[split..].to_vec(), ids[..split].to_vec()),
                        _ => {
                            let pick = |par: usize| -> Vec<u64> { ids.iter().enumerate().filter(|(k, _)| (k / 3) % 2 == par).map(|(_, id)| *id).collect() };
                            (pick(0), pick(1))
                        }
                    };
                    add_all(&mut arch, &mut model, &first, every)?;
                    let bytes = arch.save().map_err(|e| e.to_string())?;
                    model.reopened();
                    arch = if i % 8 < 4 { Arch::open_sync(bytes) } else { Arch::open_async(bytes) }.map_err(|e| e.to_string())?;
                    arch.apply_settings(&l);
                    if i % 16 >= 8 {
                        for id in first.iter().step_by(3).take(100) {
                            let _ = arch.get(*id).map_err(|e| e.to_string())?;
                        }
                    }
                    if (i / 4) % 2 == 1 {
                        // the second half is added by ANOTHER thread (the archive object moves there and back): what the store
                        // derives from a content must not depend on the thread that derived it
                        let items: Vec<(u64, Vec<u8>)> = second.iter().map(|id| (*id, l.tiles[id].as_ref().clone())).collect();
                        let handle = std::thread::spawn(move || -> Result<Arch, String> {
                            let mut arch = arch;
                            for (id, c) in items {
                                arch.add(id, c).map_err(|e| e.to_string())?;
                            }
                            Ok(arch)
                        });
                        arch = handle.join().map_err(|_| String::from("adder thread panicked"))??;
                        for id in &second {
                            model.add(*id, l.tiles[id].as_ref().clone());
                        }
                        check_store(&arch.report(), &model).map_err(|e| format!("builder: {e}"))?;
                    } else {
                        add_all(&mut arch, &mut model, &second, every)?;
                    }
                }
                2 => {
                    // everything, reopen, then re-add identical bytes for a third of the (now backed) tiles
                    add_all(&mut arch, &mut model, &ids, every)?;
                    let bytes = arch.save().map_err(|e| e.to_string())?;
                    model.reopened();
                    arch = Arch::open_sync(bytes).map_err(|e| e.to_string())?;
                    arch.apply_settings(&l);
                    if i % 8 >= 4 {
                        // look some (not all) of the reader-backed tiles up first: the middle of runs, shared contents
                        for id in ids.iter().skip(1).step_by(2).take(200) {
                            let got = arch.get(*id).map_err(|e| e.to_string())?;
                            if got.as_deref() != Some(l.tiles[id].as_slice()) {
                                return Err(format!("lookup of reader-backed tile {id} returned wrong bytes"));
                            }
                        }
                    }
                    let third: Vec<u64> = ids.iter().copied().step_by(3).collect();
                    add_all(&mut arch, &mut model, &third, every)?;
                }
                _ => {
                    // detours: junk that is replaced / removed again (must leave no trace)
                    let junk = vec![0x5a; 9];
                    for id in ids.iter().step_by(2) {
                        arch.add(*id, junk.clone()).map_err(|e| e.to_string())?;
                        model.add(*id, junk.clone());
                    }
                    let extra = ids.last().map_or(1, |l| l + 2);
                    arch.add(extra, junk.clone()).map_err(|e| e.to_string())?;
                    model.add(extra, junk);
                    check_store(&arch.report(), &model).map_err(|e| format!("builder: {e}"))?;
                    add_all(&mut arch, &mut model, &ids, every)?;
                    arch.remove(extra);
                    model.remove(extra);
                    check_store(&arch.report(), &model).map_err(|e| format!("builder: {e}"))?;
                }
            }
            if i % 5 == 2 {
                // into a stream that still holds an older, longer file: the archive's sections must not grow to cover stale bytes
                arch.save_over(3_000_000).map_err(|e| e.to_string())
            } else if i % 10 == 7 || (i % 4 == 2 && i % 3 == 1) {
                // written by another thread than the one that added the tiles
                std::thread::spawn(move || arch.save().map_err(|e| e.to_string())).join().unwrap_or_else(|_| Err(String::from("writer thread panicked")))
            } else {
                arch.save().map_err(|e| e.to_string())
            }
        });
        if i % 5 == 2 {
            ctx.count("archives_written_over_a_longer_stale_file");
        }
        ctx.case(hash_u64s(&[l.fingerprint(), i % 4]), nontrivial);
        match built {
            Err(p) => ctx.panic("PMTiles::build+to_writer", &p, mat),
            Ok(Err(e)) => {
                if e.starts_with("builder:") {
                    ctx.violation("PMTiles::add_tile/remove_tile", "retention", "builder retains a content nobody refers to, or lacks one that is referred to", &e, mat);
                } else {
                    ctx.violation("PMTiles::to_writer", "error", "building or writing a valid archive failed", &e, mat);
                }
            }
            Ok(Ok(bytes)) => match archive_clauses(&bytes, &l) {
                Ok((runs, distinct)) => {
                    ctx.count("archives_minimal");
                    ctx.add("entries_checked", runs);
                    ctx.add("distinct_contents_checked", distinct);
                    ctx.count(&format!("history.{}", i % 4));
                    if nontrivial {
                        ctx.count("archives_with_duplicates");
                    }
                    if runs < l.tiles.len() as u64 {
                        ctx.count("archives_with_runs");
                    }
                }
                Err(e) => {
                    let clause = if e.contains("could be merged") || e.contains("the minimum is") {
                        "run-length encoding is not minimal"
                    } else if e.contains("two offsets") || e.contains("distinct contents") || e.contains("tile contents") {
                        "a content is stored more than once / dedup accounting wrong"
                    } else {
                        "written archive does not satisfy the dedup/run-length clauses"
                    };
                    ctx.violation("PMTiles::to_writer", "not-minimal", clause, &e, mat);
                }
            },
        }
        if ctx.want_sample() {
            let hname = ["in-memory", "half/reopen/half", "reopen then re-add identical", "detours"][(i % 4) as usize];
            ctx.sample(json!({"archive": l.describe(), "pattern": i % 6, "history": hname}));
        }
        ctx.end(i);
    }
    // ---- archives from OTHER writers that are valid but not deduplicated / not run-length merged:
    // opening and re-writing them must produce the exact, minimal form as well
    let nf = ctx.n(240, 5000);
    for k in 0..nf {
        let i = n + k;
        if !ctx.mine(i) {
            continue;
        }
        ctx.begin(i);
        let mut rng = ctx.rng("c10.foreign", k);
        let codec = R::CODECS[(k % 4) as usize];
        let mut o = gen::gen_foreign_opts(&mut rng, codec, 1500);
        o.dup_contents = true;
        o.n_entries = o.n_entries.max(6);
        let f = gen::gen_foreign(&mut rng, &o);
        if R::validate(&f.bytes, &crate::checks::c03::foreign_opts()).is_err() {
            ctx.inconclusive("C10: foreign generator produced an invalid archive");
            ctx.end(i);
            continue;
        }
        let mut l = gen::gen_logical(&mut rng, SizeClass::Empty, codec);
        for (id, (off, len)) in &f.truth {
            l.tiles.insert(*id, Rc::new(f.bytes[*off as usize..*off as usize + *len as usize].to_vec()));
        }
        // a few in-memory tiles on top: duplicates of reader-backed contents under new ids, and fresh contents
        let extra: Vec<(u64, Rc<Vec<u8>>)> = (0..rng.usize(0, 4))
            .filter_map(|_| {
                let src = l.tiles.values().nth(rng.usize(0, l.tiles.len().saturating_sub(1))).cloned()?;
                let id = l.tiles.keys().next_back().copied().unwrap_or(0) + 1 + rng.below(3);
                Some((id, if rng.chance(1, 2) { src } else { Rc::new(rng.bytes(9)) }))
            })
            .collect();
        let mat: Value = json!({"source": f.layout, "source_entries": f.entries.len(), "tiles": f.truth.len(), "extra_in_memory": extra.len()});
        let asyncm = k % 2 == 1;
        let built = guard(|| -> Result<Vec<u8>, String> {
            let mut arch = if asyncm { Arch::open_async(f.bytes.clone()) } else { Arch::open_sync(f.bytes.clone()) }.map_err(|e| e.to_string())?;
            for (id, c) in &extra {
                arch.add(*id, c.as_ref().clone()).map_err(|e| e.to_string())?;
            }
            arch.save().map_err(|e| e.to_string())
        });
        for (id, c) in &extra {
            l.tiles.insert(*id, c.clone());
        }
        ctx.case(hash_u64s(&[crate::rng::hash_bytes(&f.bytes), 10]), l.has_duplicates());
        match built {
            Err(p) => ctx.panic("PMTiles::to_writer", &p, mat),
            Ok(Err(e)) => ctx.violation("PMTiles::to_writer", "error", "re-writing an opened foreign archive failed", &e, mat),
            Ok(Ok(bytes)) => match archive_clauses(&bytes, &l) {
                Ok(_) => {
                    ctx.count("foreign_rewrites_minimal");
                    if l.has_duplicates() {
                        ctx.count("foreign_sources_with_duplicate_contents");
                    }
                }
                Err(e) => {
                    let clause = if e.contains("could be merged") || e.contains("the minimum is") {
                        "run-length encoding is not minimal (re-written foreign archive)"
                    } else {
                        "a content is stored more than once / dedup accounting wrong (re-written foreign archive)"
                    };
                    ctx.violation("PMTiles::to_writer", "not-minimal", clause, &e, mat);
                }
            },
        }
        ctx.end(i);
    }
    let _ = BTreeMap::<u8, u8>::new();
    let _ = HashSet::<u8>::new();
}
