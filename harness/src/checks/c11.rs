//! C11 — range-filtered opening equals full opening restricted to the range.

use crate::checks::common::write_sync;
use crate::gen::{self, SizeClass};
use crate::io::{AInst, Inst, Pend};
use crate::obs::{guard, Ctx};
use crate::refimpl as R;
use crate::rng::{hash_u64s, Rng};
use futures::executor::block_on;
use pmtiles2::{util, PMTiles};
use serde_json::{json, Value};
use std::ops::{Bound, RangeBounds};

type Rg = (Bound<u64>, Bound<u64>);

fn show(r: &Rg) -> String {
    let a = match r.0 {
        Bound::Included(v) => format!("[{v}"),
        Bound::Excluded(v) => format!("({v}"),
        Bound::Unbounded => String::from("(-inf"),
    };
    let b = match r.1 {
        Bound::Included(v) => format!("{v}]"),
        Bound::Excluded(v) => format!("{v})"),
        Bound::Unbounded => String::from("+inf)"),
    };
    format!("{a},{b}")
}

fn kind(r: &Rg) -> String {
    let k = |b: &Bound<u64>| match b {
        Bound::Included(_) => "incl",
        Bound::Excluded(_) => "excl",
        Bound::Unbounded => "open",
    };
    format!("{}-{}", k(&r.0), k(&r.1))
}

fn mk(kind: u64, v: u64) -> Bound<u64> {
    match kind % 3 {
        0 => Bound::Included(v),
        1 => Bound::Excluded(v),
        _ => Bound::Unbounded,
    }
}

/// Ranges for one archive: every bound-kind pair on steered endpoints, plus random ones.
fn ranges(rng: &mut Rng, steer: &[u64], n_random: usize) -> Vec<Rg> {
    let mut v: Vec<Rg> = Vec::new();
    // the literal forms users write
    v.push((Bound::Unbounded, Bound::Excluded(0))); // ..0
    v.push((Bound::Unbounded, Bound::Included(0))); // ..=0
    v.push((Bound::Included(0), Bound::Excluded(0))); // 0..0
    v.push((Bound::Excluded(0), Bound::Excluded(0)));
    v.push((Bound::Unbounded, Bound::Unbounded)); // ..
    v.push((Bound::Included(0), Bound::Unbounded)); // 0..
    v.push((Bound::Unbounded, Bound::Included(u64::MAX)));
    v.push((Bound::Unbounded, Bound::Excluded(u64::MAX)));
    v.push((Bound::Excluded(u64::MAX), Bound::Unbounded));
    v.push((Bound::Included(u64::MAX), Bound::Included(u64::MAX)));
    v.push((Bound::Excluded(u64::MAX), Bound::Excluded(0)));
    v.push((Bound::Included(0), Bound::Included(u64::MAX))); // 0..=MAX
    v.push((Bound::Included(1), Bound::Included(u64::MAX)));
    v.push((Bound::Included(0), Bound::Excluded(u64::MAX)));
    // ranges holding exactly one id, in every spelling
    for _ in 0..6 {
        let a = *rng.pick(steer);
        v.push((Bound::Included(a), Bound::Included(a)));
        if a < u64::MAX {
            v.push((Bound::Included(a), Bound::Excluded(a + 1)));
        }
        if a > 0 {
            v.push((Bound::Excluded(a - 1), Bound::Included(a)));
            if a < u64::MAX {
                v.push((Bound::Excluded(a - 1), Bound::Excluded(a + 1)));
            }
        }
    }
    for sk in 0..3u64 {
        for ek in 0..3u64 {
            // steered endpoints
            for _ in 0..(n_random / 9).max(2) {
                let a = *rng.pick(steer);
                let b = *rng.pick(steer);
                v.push((mk(sk, a), mk(ek, b))); // may be empty or inverted
                let (lo, hi) = (a.min(b), a.max(b));
                v.push((mk(sk, lo), mk(ek, hi)));
            }
            // fully random
            let a = rng.boundary_u64();
            let b = rng.boundary_u64();
            v.push((mk(sk, a), mk(ek, b)));
        }
    }
    v
}

struct Arch {
    bytes: Vec<u8>,
    label: String,
    steer: Vec<u64>,
    leaf_section: (u64, u64),
    has_leaves: bool,
    /// a different archive with the same ids and the same layout (equal section offsets and lengths, other tile bytes and
    /// other entry lengths): it is opened with the same range right before some of the partial opens
    sibling: Option<Vec<u8>>,
    /// the tile data section (stored last) is cut off right behind its first bytes: opens stay possible, lookups do not
    truncated: bool,
}

/// Cut the archive off a few bytes into its tile data section if that section is stored last.
fn truncate_tile_data(bytes: &mut Vec<u8>) -> bool {
    let Ok(h) = R::header_unpack(bytes) else { return false };
    let others = [h.root_offset + h.root_length, h.meta_offset + h.meta_length, h.leaf_offset + h.leaf_length, 127];
    if h.data_length < 8 || others.iter().any(|e| *e > h.data_offset) || h.data_offset as usize >= bytes.len() {
        return false;
    }
    bytes.truncate(h.data_offset as usize + 3);
    true
}

fn steer_points(bytes: &[u8], rng: &mut Rng) -> (Vec<u64>, (u64, u64), bool) {
    let mut s: Vec<u64> = vec![0, 1, 2, u64::MAX, u64::MAX - 1];
    let mut leaf = (0, 0);
    let mut has = false;
    if let Ok((h, w)) = R::walk(bytes, &R::WalkLimits::default(), false) {
        leaf = (h.leaf_offset, h.leaf_length);
        has = !w.pointers.is_empty();
        // ids stored deepest in the tree
        let deepest = w.pointers.iter().map(|(d, _)| *d).max().unwrap_or(0);
        for (d, p) in &w.pointers {
            if *d == deepest {
                s.push(p.tile_id);
            }
        }
        for (_, p) in &w.pointers {
            s.extend([p.tile_id.saturating_sub(1), p.tile_id, p.tile_id.saturating_add(1)]);
        }
        let step = (w.entries.len() / 40).max(1);
        for e in w.entries.iter().step_by(step) {
            let end = e.tile_id.saturating_add(u64::from(e.run_length));
            s.extend([e.tile_id.saturating_sub(1), e.tile_id, e.tile_id.saturating_add(1), end - 1, end, end.saturating_add(1)]);
        }
        // bounds whose distance to an entry is k*2^32 + d with d inside the run (narrowing casts alias them onto the run)
        for e in w.entries.iter().step_by((w.entries.len() / 6).max(1)) {
            let last = u64::from(e.run_length.saturating_sub(1));
            for k in [1u64, 2, 1 << 20] {
                s.push(e.tile_id.saturating_add(k << 32));
                s.push(e.tile_id.saturating_add(k << 32).saturating_add(last));
                s.push(e.tile_id.saturating_add(k << 32).saturating_add(last / 2));
            }
        }
        if let Some(e) = w.entries.last() {
            let end = e.tile_id.saturating_add(u64::from(e.run_length));
            s.extend([end - 1, end, end.saturating_add(1)]);
        }
        if let Some(e) = w.entries.first() {
            s.extend([e.tile_id.saturating_sub(1), e.tile_id, e.tile_id.saturating_add(1)]);
        }
    }
    for _ in 0..6 {
        s.push(rng.boundary_u64());
    }
    s.sort_unstable();
    s.dedup();
    (s, leaf, has)
}

fn archives(ctx: &Ctx, i: u64) -> Arch {
    let mut rng = ctx.rng("c11.arch", i);
    let codec = R::CODECS[(i % 4) as usize];
    if i % 2 == 0 {
        // foreign archive, depth 1..3
        let mut o = gen::gen_foreign_opts(&mut rng, codec, 3000);
        o.small_metadata = true; // the archive is opened hundreds of times; metadata is irrelevant here
        if i % 4 == 0 {
            o.depth = rng.range(2, 3) as u32;
            o.n_entries = o.n_entries.max(40);
        }
        if i % 16 == 8 {
            // deep trees: more leaf levels than the reference readers use, still opened by the full open
            o.depth = rng.range(4, 7) as u32;
            o.n_entries = rng.usize(40, 400);
        }
        let mut f = gen::gen_foreign(&mut rng, &o);
        let (steer, leaf_section, has_leaves) = steer_points(&f.bytes, &mut rng);
        let truncated = i % 8 == 6 && truncate_tile_data(&mut f.bytes);
        Arch {
            sibling: None,
            label: format!("foreign {} entries={} leaves={}{}", f.layout, f.entries.len(), f.n_leaves, if truncated { " (tile data cut off)" } else { "" }),
            bytes: f.bytes,
            steer,
            leaf_section,
            has_leaves,
            truncated,
        }
    } else {
        let class = match i % 20 {
            1 => SizeClass::Empty,
            3 => SizeClass::One,
            5 | 15 => SizeClass::Spill,
            7 | 9 | 17 => SizeClass::Medium,
            _ => SizeClass::Small,
        };
        let mut l = gen::gen_logical(&mut rng, class, codec);
        if i % 40 == 13 {
            // unique short contents on scattered ids, no codec: leaf directories whose size does not change when every content
            // grows by one byte (the sibling archive below then has the very same layout and different entries)
            l = gen::gen_logical(&mut rng, SizeClass::One, R::C_NONE);
            l.tiles.clear();
            let mut id = rng.below(100);
            for k in 0..rng.range(5000, 9000) {
                let len = rng.usize(3, 60);
                let mut c = rng.bytes(len);
                c[0] = k as u8;
                c[1] = (k >> 8) as u8;
                c[2] = 0xC7;
                l.tiles.insert(id, std::rc::Rc::new(c));
                id += 1 + rng.log_range(1, 1 << 16);
            }
            l.class = String::from("unique-short-contents/no-codec");
        }
        if i % 20 == 11 || i % 20 == 19 {
            // tile ids beyond the last z/x/y-addressable id, up to u64::MAX (add_tile takes any u64): open-ended ranges must reach them
            let dom = gen::id_domain();
            let c = std::rc::Rc::new(vec![0xD1u8, 0xD2, 0xD3]);
            for id in [dom - 1, dom, dom + 1, 1u64 << 62, 1u64 << 63, u64::MAX - 1, u64::MAX] {
                l.tiles.insert(id, c.clone());
            }
            l.class.push_str("/ids-beyond-zoom-31");
        }
        if l.meta.len() > 8 || serde_json::to_string(&l.meta).map_or(0, |s| s.len()) > 4096 {
            l.meta = gen::json_object(&mut rng, 3, 5);
        }
        let mut bytes = write_sync(l.build()).expect("write");
        let (steer, leaf_section, has_leaves) = steer_points(&bytes, &mut rng);
        let truncated = i % 8 == 7 && truncate_tile_data(&mut bytes);
        let sibling = if l.internal_compression == R::C_NONE && !truncated {
            // same ids, every content one byte longer and different: identical directory layout without a codec as long as the
            // lengths keep their varint widths
            let mut s = l.clone();
            for c in s.tiles.values_mut() {
                let mut v: Vec<u8> = c.iter().map(|b| b ^ 0x5A).collect();
                v.push(0x5A);
                *c = std::rc::Rc::new(v);
            }
            write_sync(s.build()).ok().filter(|sb| R::header_unpack(sb).ok().map(|h| (h.root_length, h.leaf_offset, h.leaf_length)) == R::header_unpack(&bytes).ok().map(|h| (h.root_length, h.leaf_offset, h.leaf_length)))
        } else {
            None
        };
        Arch {
            sibling,
            label: format!("library-written {} codec={}{}", l.class, R::codec_name(codec), if truncated { " (tile data cut off)" } else { "" }),
            bytes,
            steer,
            leaf_section,
            has_leaves,
            truncated,
        }
    }
}

fn compare(
    ctx: &mut Ctx,
    api: &str,
    got: Result<Result<Vec<(u64, Option<u64>)>, std::io::Error>, crate::obs::PanicInfo>,
    full_ids: &[u64],
    full_fp: &dyn Fn(u64) -> u64,
    r: &Rg,
    mat: &Value,
) {
    match got {
        Err(p) => ctx.panic(api, &p, mat.clone()),
        Ok(Err(e)) => ctx.violation(
            api,
            "partial-fails",
            &format!("partial open fails although the full open succeeds ({})", kind(r)),
            &format!("range {}: {e}", show(r)),
            mat.clone(),
        ),
        Ok(Ok(mut ids)) => {
            ids.sort_unstable();
            let want: Vec<u64> = full_ids.iter().copied().filter(|i| r.contains(i)).collect();
            let got_ids: Vec<u64> = ids.iter().map(|(i, _)| *i).collect();
            if got_ids != want {
                let missing: Vec<u64> = want.iter().filter(|i| got_ids.binary_search(i).is_err()).take(3).copied().collect();
                let extra: Vec<u64> = got_ids.iter().filter(|i| want.binary_search(i).is_err()).take(3).copied().collect();
                ctx.violation(
                    api,
                    "wrong-id-set",
                    &format!("partial open yields a different id set than full ∩ range ({})", kind(r)),
                    &format!(
                        "range {}: partial open lists {} ids, full ∩ range has {}; missing {:?}, extra {:?}",
                        show(r),
                        got_ids.len(),
                        want.len(),
                        missing,
                        extra
                    ),
                    mat.clone(),
                );
                return;
            }
            for (id, fp) in &ids {
                if let Some(fp) = fp {
                    if *fp != full_fp(*id) {
                        ctx.violation(api, "wrong-bytes", "partial open returns different bytes", &format!("range {}: tile {id} differs from the full open", show(r)), mat.clone());
                        return;
                    }
                }
            }
            ctx.count("ranges_equal");
            if want.is_empty() {
                ctx.count("ranges_selecting_nothing");
            } else if want.len() < full_ids.len() {
                ctx.count("ranges_selecting_strict_subset");
            } else {
                ctx.count("ranges_selecting_everything");
            }
        }
    }
}

pub fn run(ctx: &mut Ctx) {
    let narch = ctx.n(160, 3000);
    let nranges = ctx.n(110, 260) as usize;
    for i in 0..narch {
        if !ctx.mine(i) {
            continue;
        }
        ctx.begin(i);
        let a = archives(ctx, i);
        if std::env::var_os("PMVERIF_TIMING").is_some() {
            eprintln!("case {i}: {} ({} bytes, {} steer points)", a.label, a.bytes.len(), a.steer.len());
        }
        let mut rng = ctx.rng("c11.ranges", i);
        // full open = the oracle for this archive
        let full = guard(|| PMTiles::from_bytes(a.bytes.clone()));
        let mut full = match full {
            Ok(Ok(f)) => f,
            Ok(Err(_)) if a.truncated => {
                // a reader may legitimately insist on the tile data being there; then there is nothing to compare
                ctx.count("cut_off_archives_refused_by_the_full_open");
                ctx.end(i);
                continue;
            }
            Ok(Err(e)) => {
                ctx.inconclusive(&format!("full open of a generated archive failed ({}): {e}", a.label));
                ctx.end(i);
                continue;
            }
            Err(p) => {
                ctx.panic("PMTiles::from_bytes", &p, json!({"archive": a.label}));
                ctx.end(i);
                continue;
            }
        };
        let mut full_ids: Vec<u64> = full.tile_ids().into_iter().copied().collect();
        full_ids.sort_unstable();
        let mut cache: std::collections::HashMap<u64, u64> = std::collections::HashMap::new();
        let step = (full_ids.len() / 60).max(1);
        if a.truncated {
            ctx.count("archives_with_tile_data_cut_off");
        }
        for id in full_ids.iter().step_by(step).filter(|_| !a.truncated) {
            let b = full.get_tile_by_id(*id).ok().flatten().unwrap_or_default();
            cache.insert(*id, crate::rng::hash_bytes(&b));
        }
        let full_fp = |id: u64| cache.get(&id).copied().unwrap_or(0);
        let h = R::header_unpack(&a.bytes).expect("header");
        let comp = gen::comp(h.internal_compression);
        let rs = ranges(&mut rng, &a.steer, nranges);
        ctx.case(hash_u64s(&[crate::rng::hash_bytes(&a.bytes), rs.len() as u64]), full_ids.len() >= 2);
        if a.has_leaves {
            ctx.count("archives_with_leaves");
        } else {
            ctx.count("archives_root_only");
        }
        if a.label.contains("depth=5") || a.label.contains("depth=6") || a.label.contains("depth=7") || a.label.contains("depth=8") {
            ctx.count("archives_deeper_than_4");
        }
        if let Some(sb) = &a.sibling {
            // the sibling archive is walked completely by range-filtered opens (all three entry points) before this archive is
            // opened partially for the first time
            let wide: [Rg; 2] = [(Bound::Included(0), Bound::Unbounded), (Bound::Unbounded, Bound::Included(u64::MAX - 1))];
            for w in wide {
                let _ = guard(|| PMTiles::from_bytes_partially(sb.clone(), w).map(|p| p.num_tiles()));
                let mut s = Inst::new(sb.clone());
                let _ = guard(|| PMTiles::from_reader_partially(&mut s, w).map(|p| p.num_tiles()));
                let mut s2 = AInst::new(sb.clone());
                let _ = guard(|| block_on(PMTiles::from_async_reader_partially(&mut s2, w)).map(|p| p.num_tiles()));
            }
            ctx.count("archives_opened_after_a_sibling_of_identical_layout");
        }
        for (ri, r) in rs.iter().enumerate() {
            let mat = json!({"archive": a.label, "archive_len": a.bytes.len(), "range": show(r), "tiles_in_full_open": full_ids.len()});
            ctx.count(&format!("bound_kinds.{}", kind(r)));
            let sample_ids = |pm_ids: Vec<u64>| -> Vec<u64> { pm_ids };
            // entry point rotates; every range goes through from_bytes_partially
            let r2 = *r;
            if let (Some(sb), true) = (&a.sibling, ri % 3 == 0) {
                // another archive with the same layout, opened with the same range on this thread right before
                let _ = guard(|| PMTiles::from_bytes_partially(sb.clone(), r2).map(|p| p.num_tiles()));
                ctx.count("partial_opens_preceded_by_a_sibling_archive");
            }
            let bytes = a.bytes.clone();
            let cache_has = |id: &u64| cache.contains_key(id);
            let got = guard(|| {
                PMTiles::from_bytes_partially(bytes, r2).map(|mut pm| {
                    let ids = sample_ids(pm.tile_ids().into_iter().copied().collect());
                    ids.into_iter()
                        .map(|id| {
                            let fp = if cache_has(&id) {
                                Some(pm.get_tile_by_id(id).ok().flatten().map_or(1, |b| crate::rng::hash_bytes(&b)))
                            } else {
                                None
                            };
                            (id, fp)
                        })
                        .collect::<Vec<_>>()
                })
            });
            compare(ctx, "PMTiles::from_bytes_partially", got, &full_ids, &full_fp, r, &mat);
            match ri % 3 {
                0 => {
                    let mut s = Inst::recording(a.bytes.clone());
                    let got = guard(|| PMTiles::from_reader_partially(&mut s, r2).map(|pm| pm.tile_ids().into_iter().map(|i| (*i, None)).collect::<Vec<_>>()));
                    compare(ctx, "PMTiles::from_reader_partially", got, &full_ids, &full_fp, r, &mat);
                    // evidence: how much of the leaf section was read
                    if a.has_leaves && a.leaf_section.1 > 0 {
                        let (lo, hi) = (a.leaf_section.0, a.leaf_section.0 + a.leaf_section.1);
                        let mut covered: u64 = 0;
                        let mut rr: Vec<(u64, u64)> = s.c.read_ranges().into_iter().filter(|(x, y)| *y > lo && *x < hi).map(|(x, y)| (x.max(lo), y.min(hi))).collect();
                        rr.sort_unstable();
                        let mut cur = lo;
                        for (x, y) in rr {
                            if y > cur {
                                covered += y - x.max(cur);
                                cur = y;
                            }
                        }
                        if covered < a.leaf_section.1 {
                            ctx.count("opens_that_skipped_leaf_bytes");
                        } else {
                            ctx.count("opens_that_read_all_leaves");
                        }
                    }
                }
                1 => {
                    let mut s = AInst::new(a.bytes.clone());
                    s.pend = Pend::Alternate;
                    let got = guard(|| {
                        block_on(PMTiles::from_async_reader_partially(&mut s, r2)).map(|pm| pm.tile_ids().into_iter().map(|i| (*i, None)).collect::<Vec<_>>())
                    });
                    compare(ctx, "PMTiles::from_async_reader_partially", got, &full_ids, &full_fp, r, &mat);
                }
                _ => {
                    let got = guard(|| {
                        let mut c = std::io::Cursor::new(&a.bytes);
                        util::read_directories(&mut c, comp, (h.root_offset, h.root_length), h.leaf_offset, r2).map(|m| m.keys().map(|i| (*i, None)).collect::<Vec<_>>())
                    });
                    compare(ctx, "util::read_directories", got, &full_ids, &full_fp, r, &mat);
                }
            }
        }
        if ctx.want_sample() {
            ctx.sample(json!({"archive": a.label, "ranges": rs.iter().take(6).map(show).collect::<Vec<_>>(), "steered_endpoints": a.steer.iter().take(12).collect::<Vec<_>>()}));
        }
        ctx.end(i);
    }
}
