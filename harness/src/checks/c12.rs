//! C12 — synchronous and asynchronous APIs are observationally equivalent.

use crate::checks::c09::{lib_to_r, rand_header};
use crate::checks::common::{dump_async, dump_sync, logical_for, lookup_probes, settings_of, verify_archive_bytes, write_async, write_sync};
use crate::gen::{self, entries_fp};
use crate::io::{AInst, Pend, Sched};
use crate::obs::{guard, Ctx};
use crate::refimpl as R;
use crate::rng::{hash_bytes, Rng};
use futures::executor::block_on;
use pmtiles2::{util, Directory, Header, PMTiles};
use serde_json::{json, Value};
use std::collections::BTreeMap;
use std::ops::Bound;

fn ainst(bytes: &[u8], rng: &mut Rng, hostile: bool) -> AInst {
    let mut a = AInst::new(bytes.to_vec());
    if hostile {
        a.pend = Pend::Random(Rng::new(rng.next()), 1, 3);
        a.c.rsched = Sched::Random(Rng::new(rng.next()), 700);
        a.c.wsched = Sched::Random(Rng::new(rng.next()), 700);
    }
    a
}

type Snapshot = (crate::checks::common::Settings, String, BTreeMap<u64, u64>);

fn snap_sync(bytes: &[u8], range: Option<(Bound<u64>, Bound<u64>)>) -> Result<Snapshot, String> {
    let mut pm = match range {
        None => PMTiles::from_bytes(bytes.to_vec()),
        Some(r) => PMTiles::from_bytes_partially(bytes.to_vec(), r),
    }
    .map_err(|e| format!("sync open failed: {e}"))?;
    let d = dump_sync(&mut pm)?;
    Ok((settings_of(&pm), serde_json::to_string(&pm.meta_data).unwrap_or_default(), d.into_iter().map(|(k, v)| (k, hash_bytes(&v))).collect()))
}

fn snap_async(bytes: &[u8], range: Option<(Bound<u64>, Bound<u64>)>, rng: &mut Rng, hostile: bool) -> Result<Snapshot, String> {
    let mut s = ainst(bytes, rng, hostile);
    let mut pm = match range {
        None => block_on(PMTiles::from_async_reader(&mut s)),
        Some(r) => block_on(PMTiles::from_async_reader_partially(&mut s, r)),
    }
    .map_err(|e| format!("async open failed: {e}"))?;
    let d = dump_async(&mut pm)?;
    Ok((settings_of(&pm), serde_json::to_string(&pm.meta_data).unwrap_or_default(), d.into_iter().map(|(k, v)| (k, hash_bytes(&v))).collect()))
}

fn snap_eq(a: &Snapshot, b: &Snapshot) -> Result<(), String> {
    if a.0.tile_type != b.0.tile_type
        || a.0.tile_compression != b.0.tile_compression
        || a.0.internal_compression != b.0.internal_compression
        || a.0.zooms != b.0.zooms
        || a.0.coords.map(f64::to_bits) != b.0.coords.map(f64::to_bits)
    {
        return Err(format!("settings differ: {:?} vs {:?}", a.0, b.0));
    }
    if a.1 != b.1 {
        return Err(String::from("metadata differs"));
    }
    if a.2 != b.2 {
        let only_a: Vec<&u64> = a.2.keys().filter(|k| !b.2.contains_key(k)).take(3).collect();
        let only_b: Vec<&u64> = b.2.keys().filter(|k| !a.2.contains_key(k)).take(3).collect();
        return Err(format!("tiles differ: {} vs {} ids; only sync {:?}, only async {:?}", a.2.len(), b.2.len(), only_a, only_b));
    }
    Ok(())
}

fn short_digits(e: &str) -> String {
    e.chars().take(300).collect()
}

fn archive_readers(ctx: &mut Ctx, bytes: &[u8], label: &str, rng: &mut Rng) {
    let mat = json!({"archive": label, "file_bytes": bytes.len()});
    let ids: Vec<u64> = R::walk(bytes, &R::WalkLimits::default(), false).map(|(_, w)| w.tiles.keys().copied().collect()).unwrap_or_default();
    let mut ranges: Vec<Option<(Bound<u64>, Bound<u64>)>> = vec![None];
    if let Ok((_, w)) = R::walk(bytes, &R::WalkLimits::default(), false) {
        // starts / ends steered onto leaf boundaries (first id of a leaf, last id of the previous one)
        let last = ids.last().copied().unwrap_or(0);
        for (_, p) in w.pointers.iter().skip(1).step_by((w.pointers.len() / 3).max(1)).take(3) {
            let prev_last = ids.iter().rev().find(|i| **i < p.tile_id).copied().unwrap_or(0);
            ranges.push(Some((Bound::Included(prev_last), Bound::Included(p.tile_id.saturating_add(6).min(last)))));
            ranges.push(Some((Bound::Included(p.tile_id), Bound::Unbounded)));
            ranges.push(Some((Bound::Unbounded, Bound::Excluded(p.tile_id))));
        }
    }
    if !ids.is_empty() {
        let a = *rng.pick(&ids);
        let b = *rng.pick(&ids);
        ranges.push(Some((Bound::Included(a.min(b)), Bound::Excluded(a.max(b)))));
        ranges.push(Some((Bound::Excluded(a), Bound::Unbounded)));
    }
    for (k, r) in ranges.into_iter().enumerate() {
        let hostile = k % 2 == 0;
        let res = guard(|| {
            let s = snap_sync(bytes, r)?;
            let a = snap_async(bytes, r, rng, hostile)?;
            snap_eq(&s, &a).map(|()| s.2.len())
        });
        let api = if r.is_some() { "PMTiles::from_async_reader_partially" } else { "PMTiles::from_async_reader" };
        match res {
            Err(p) => ctx.panic(api, &p, mat.clone()),
            Ok(Err(e)) => {
                let detail = if e.contains("open failed") { "one reader kind refuses what the other accepts" } else { "async reader returns different values than the sync reader" };
                ctx.violation(api, "readers-differ", detail, &e, mat.clone());
            }
            Ok(Ok(n)) => {
                ctx.count(if r.is_some() { "partial_opens_equal" } else { "full_opens_equal" });
                ctx.add("tiles_compared_between_readers", n as u64);
            }
        }
    }
    // lookups by coordinates, inside and outside the grid (x or y shifted by 2^z alias an existing tile if the grid check is
    // skipped): both API kinds must answer alike
    if !ids.is_empty() {
        let res = guard(|| -> Result<u64, String> {
            let mut ps = PMTiles::from_bytes(bytes.to_vec()).map_err(|e| format!("sync open failed: {e}"))?;
            let mut s = ainst(bytes, rng, false);
            let mut pa = block_on(PMTiles::from_async_reader(&mut s)).map_err(|e| format!("async open failed: {e}"))?;
            let mut n = 0;
            for id in ids.iter().step_by((ids.len() / 12).max(1)) {
                let Some((z, x, y)) = R::id_to_zxy(*id) else { continue };
                let w = 1u64 << z;
                for (qx, qy, qz) in [(x, y, z), (x + w, y, z), (x, y + w, z), (x + w, y + w, z), (x, y, z.wrapping_add(32)), (x | 1 << 40, y, z)] {
                    let a = ps.get_tile(qx, qy, qz).map_err(|e| e.to_string());
                    let b = block_on(pa.get_tile_async(qx, qy, qz)).map_err(|e| e.to_string());
                    if a != b {
                        return Err(format!(
                            "get_tile({qx},{qy},{qz}): sync {:?}, async {:?}",
                            a.as_ref().map(|o| o.as_ref().map(Vec::len)),
                            b.as_ref().map(|o| o.as_ref().map(Vec::len))
                        ));
                    }
                    n += 1;
                }
            }
            Ok(n)
        });
        match res {
            Err(p) => ctx.panic("PMTiles::get_tile_async", &p, mat.clone()),
            Ok(Err(e)) => ctx.violation("PMTiles::get_tile_async", "readers-differ", "lookup by coordinates answers differently through the async API", &e, mat.clone()),
            Ok(Ok(n)) => ctx.add("coordinate_lookups_compared", n),
        }
    }
    // re-write twins: open with either reader kind, write with the matching writer kind; both outputs must hold
    // the same logical content as the source (and be byte-identical when no codec is involved)
    if bytes.len() < (8 << 20) {
        let res = guard(|| -> Result<(bool, usize), String> {
            let src = snap_sync(bytes, None)?;
            let pm = PMTiles::from_bytes(bytes.to_vec()).map_err(|e| format!("sync open failed: {e}"))?;
            let bs = write_sync(pm).map_err(|e| format!("sync re-write failed: {e}"))?;
            let mut s = ainst(bytes, rng, true);
            let pm = block_on(PMTiles::from_async_reader(&mut s)).map_err(|e| format!("async open failed: {e}"))?;
            let mut out = ainst(&[], rng, true);
            block_on(pm.to_async_writer(&mut out)).map_err(|e| format!("async re-write failed: {e}"))?;
            let ba = out.c.data;
            let ss = snap_sync(&bs, None).map_err(|e| format!("sync re-write unreadable: {e}"))?;
            let sa = snap_sync(&ba, None).map_err(|e| format!("async re-write unreadable: {e}"))?;
            snap_eq(&src, &ss).map_err(|e| format!("sync re-write differs from the source: {e}"))?;
            snap_eq(&src, &sa).map_err(|e| format!("async re-write differs from the source: {e}"))?;
            let none = R::header_unpack(bytes).map(|h| h.internal_compression == R::C_NONE).unwrap_or(false);
            if none && bs != ba {
                return Err(format!("re-written outputs differ without a codec: sync {} bytes, async {} bytes", bs.len(), ba.len()));
            }
            Ok((none, src.2.len()))
        });
        match res {
            Err(p) => ctx.panic("PMTiles::to_async_writer", &p, mat.clone()),
            Ok(Err(e)) => ctx.violation("PMTiles::to_async_writer", "rewrites-differ", "re-writing an opened archive gives different results through the async API", &short_digits(&e), mat.clone()),
            Ok(Ok((none, n))) => {
                ctx.count("rewrite_twins_equal");
                if none {
                    ctx.count("rewrite_twins_byte_identical");
                }
                ctx.add("tiles_compared_between_rewrites", n as u64);
            }
        }
    }
    // util::read_directories twins
    if let Ok(h) = R::header_unpack(bytes) {
        let comp = gen::comp(h.internal_compression);
        let res = guard(|| {
            let mut c = std::io::Cursor::new(bytes);
            let s = util::read_directories(&mut c, comp, (h.root_offset, h.root_length), h.leaf_offset, ..).map_err(|e| e.to_string())?;
            let mut a = ainst(bytes, rng, true);
            let m = block_on(util::read_directories_async(&mut a, comp, (h.root_offset, h.root_length), h.leaf_offset, ..)).map_err(|e| e.to_string())?;
            let norm = |m: &std::collections::HashMap<u64, util::OffsetLength, ahash::RandomState>| -> BTreeMap<u64, (u64, u32)> {
                m.iter().map(|(k, v)| (*k, (v.offset, v.length))).collect()
            };
            if norm(&s) != norm(&m) {
                return Err(String::from("entry maps differ"));
            }
            Ok(())
        });
        match res {
            Err(p) => ctx.panic("util::read_directories_async", &p, mat.clone()),
            Ok(Err(e)) => ctx.violation("util::read_directories_async", "readers-differ", "async directory walk differs from the sync one", &e, mat.clone()),
            Ok(Ok(())) => ctx.count("entry_maps_equal"),
        }
    }
}

fn writers(ctx: &mut Ctx, i: u64) {
    let l = logical_for(ctx, "c12.logical", i);
    let mut rng = ctx.rng("c12.w", i);
    let mat: Value = l.describe();
    let bs = guard(|| write_sync(l.build()));
    let ba = guard(|| {
        if i % 2 == 0 {
            write_async(l.build_async())
        } else {
            let mut out = ainst(&[], &mut rng, true);
            block_on(l.build_async().to_async_writer(&mut out)).map(|()| out.c.data)
        }
    });
    let (bs, ba) = match (bs, ba) {
        (Ok(Ok(s)), Ok(Ok(a))) => (s, a),
        (Err(p), _) => {
            ctx.panic("PMTiles::to_writer", &p, mat);
            return;
        }
        (_, Err(p)) => {
            ctx.panic("PMTiles::to_async_writer", &p, mat);
            return;
        }
        (s, a) => {
            ctx.violation(
                "PMTiles::to_async_writer",
                "writers-differ",
                "one writer kind fails where the other succeeds",
                &format!("sync: {:?}, async: {:?}", s.map(|r| r.map(|b| b.len())).ok(), a.map(|r| r.map(|b| b.len())).ok()),
                mat,
            );
            return;
        }
    };
    ctx.case(l.fingerprint(), l.tiles.len() >= 2);
    if l.internal_compression == R::C_NONE {
        if bs != ba {
            let at = bs.iter().zip(ba.iter()).position(|(x, y)| x != y).unwrap_or(bs.len().min(ba.len()));
            ctx.violation(
                "PMTiles::to_async_writer",
                "bytes-differ-without-codec",
                "async writer output is not byte-identical although no codec is involved",
                &format!("sync output {} bytes, async output {} bytes, first difference at byte {at}", bs.len(), ba.len()),
                mat.clone(),
            );
        } else {
            ctx.count("none_outputs_byte_identical");
        }
    }
    // what the async writer produced is a valid archive with the logical content (independent reader)
    let probes = lookup_probes(&l, &mut rng, 30);
    if let Err(e) = verify_archive_bytes(&ba, &l, &probes) {
        ctx.violation("PMTiles::to_async_writer", "async-output-invalid", "async writer output does not hold the logical content", &e, mat.clone());
    } else {
        ctx.count("async_outputs_validated");
    }
    // all four (writer, reader) combinations yield the same logical content
    let res = guard(|| {
        let ss = snap_sync(&bs, None)?;
        let sa = snap_async(&bs, None, &mut rng, true)?;
        let as_ = snap_sync(&ba, None)?;
        let aa = snap_async(&ba, None, &mut rng, false)?;
        snap_eq(&ss, &sa)?;
        snap_eq(&ss, &as_)?;
        snap_eq(&ss, &aa)?;
        if ss.2.len() != l.tiles.len() {
            return Err(format!("{} tiles read back, {} added", ss.2.len(), l.tiles.len()));
        }
        Ok(())
    });
    match res {
        Err(p) => ctx.panic("PMTiles::from_async_reader", &p, mat),
        Ok(Err(e)) => ctx.violation("PMTiles::to_async_writer", "writers-differ", "async-written archive reads back to different logical content than the sync-written one", &e, mat),
        Ok(Ok(())) => ctx.count("writer_reader_combinations_equal"),
    }
    if ctx.want_sample() {
        ctx.sample(json!({"kind": "writers", "archive": l.describe()}));
    }
}

fn directories(ctx: &mut Ctx, i: u64) {
    let mut rng = ctx.rng("c12.dir", i);
    let n = match i % 4 {
        0 => rng.usize(0, 5),
        1 | 2 => rng.usize(5, 500),
        _ => rng.usize(500, 6000),
    };
    let list = gen::gen_entries(&mut rng, n, true, true);
    let codec = R::CODECS[(i % 4) as usize];
    let comp = gen::comp(codec);
    let mat = json!({"entries": list.len(), "codec": R::codec_name(codec), "fingerprint": entries_fp(&list)});
    let d = Directory::from(gen::to_lib_entries(&list));
    let res = guard(|| -> Result<(), String> {
        let mut sb = Vec::new();
        d.to_writer(&mut sb, comp).map_err(|e| format!("sync write: {e}"))?;
        let mut aw = ainst(&[], &mut rng, true);
        block_on(d.to_async_writer(&mut aw, comp)).map_err(|e| format!("async write: {e}"))?;
        let ab = aw.c.data;
        if codec == R::C_NONE && sb != ab {
            return Err(String::from("bytes differ although no codec is involved"));
        }
        for (wname, bytes) in [("sync-written", &sb), ("async-written", &ab)] {
            let s = Directory::from_bytes(bytes, comp).map_err(|e| format!("sync read of {wname}: {e}"))?;
            let mut ar = ainst(bytes, &mut rng, true);
            let a = block_on(Directory::from_async_reader(&mut ar, bytes.len() as u64, comp)).map_err(|e| format!("async read of {wname}: {e}"))?;
            if s != a {
                return Err(format!("readers return different directories for {wname} bytes"));
            }
            if gen::from_lib_entries(&s) != list {
                return Err(format!("{wname} bytes decode to a different entry list"));
            }
        }
        Ok(())
    });
    match res {
        Err(p) => ctx.panic("Directory::to_async_writer", &p, mat),
        Ok(Err(e)) => ctx.violation("Directory::to_async_writer/from_async_reader", "directories-differ", "async directory codec differs from the sync one", &e, mat),
        Ok(Ok(())) => ctx.count("directories_equal"),
    }
    ctx.case(entries_fp(&list) ^ u64::from(codec) ^ 0xc12, list.len() >= 2);
    // util::write_directories twins: same resolved mapping; None: identical bytes
    if i % 3 == 0 {
        // tiny initial leaf sizes without a codec: the pointer root itself overflows and the leaf size is doubled several times
        let codec = if matches!((i / 3) % 5, 1 | 2) { R::C_NONE } else { codec };
        let comp = gen::comp(codec);
        let tiles_only: Vec<R::REntry> = list.iter().filter(|e| e.run_length > 0).copied().collect();
        let le = gen::to_lib_entries(&tiles_only);
        let res = guard(|| -> Result<(), String> {
            let mut so = crate::io::Inst::new(Vec::new());
            // default strategy, or an explicit initial leaf size (tiny ones force several doubling rounds)
            let strat = |k: u64| match k % 5 {
                0 => None,
                1 => Some(util::WriteDirsOverflowStrategy::OnlyLeafPointers { start_size: Some(1) }),
                2 => Some(util::WriteDirsOverflowStrategy::OnlyLeafPointers { start_size: Some(2) }),
                3 => Some(util::WriteDirsOverflowStrategy::OnlyLeafPointers { start_size: Some(33) }),
                _ => Some(util::WriteDirsOverflowStrategy::OnlyLeafPointers { start_size: None }),
            };
            let sl = util::write_directories(&mut so, &le, comp, strat(i / 3)).map_err(|e| e.to_string())?;
            let mut ao = ainst(&[], &mut rng, true);
            let al = block_on(util::write_directories_async(&mut ao, &le, comp, strat(i / 3))).map_err(|e| e.to_string())?;
            let (sroot, aroot) = (&so.c.data[..so.c.pos as usize], &ao.c.data[..ao.c.pos as usize]);
            if codec == R::C_NONE && (sroot != aroot || sl != al) {
                return Err(String::from("root or leaf bytes differ although no codec is involved"));
            }
            let resolve = |root: &[u8], leaves: &[u8]| -> Result<Vec<R::REntry>, String> {
                let (re, _) = R::dir_decode(&R::codec_decompress(codec, root, R::DECOMP_LIMIT)?)?;
                if leaves.is_empty() {
                    return Ok(re);
                }
                let mut all = Vec::new();
                for p in re {
                    let a = p.offset as usize;
                    let b = a + p.length as usize;
                    if b > leaves.len() {
                        return Err(String::from("pointer outside leaf section"));
                    }
                    all.extend(R::dir_decode(&R::codec_decompress(codec, &leaves[a..b], R::DECOMP_LIMIT)?)?.0);
                }
                Ok(all)
            };
            if resolve(sroot, &sl)? != resolve(aroot, &al)? {
                return Err(String::from("resolved mappings differ"));
            }
            Ok(())
        });
        match res {
            Err(p) => ctx.panic("util::write_directories_async", &p, mat_small(&tiles_only, codec)),
            Ok(Err(e)) => ctx.violation("util::write_directories_async", "directories-differ", "async directory writer differs from the sync one", &e, mat_small(&tiles_only, codec)),
            Ok(Ok(())) => {
                ctx.count("write_directories_equal");
                if matches!((i / 3) % 5, 1 | 2) && tiles_only.len() > 2500 {
                    ctx.count("write_directories_twins_with_leaf_size_doubling");
                }
            }
        }
    }
}

/// write_directories vs write_directories_async and whole-archive writers on a list whose None encoding sits on the
/// root budget boundary: both twins must take the same spill decision (byte-identical output without a codec).
fn boundary_twins(ctx: &mut Ctx, list: &[R::REntry], rng: &mut Rng) {
    let le = gen::to_lib_entries(list);
    let comp = gen::comp(R::C_NONE);
    let mat = json!({"none_encoding_bytes": R::dir_encoded_len(list), "entries": list.len()});
    let res = guard(|| -> Result<(), String> {
        let mut so = crate::io::Inst::new(Vec::new());
        let sl = util::write_directories(&mut so, &le, comp, None).map_err(|e| e.to_string())?;
        let mut ao = ainst(&[], rng, true);
        let al = block_on(util::write_directories_async(&mut ao, &le, comp, None)).map_err(|e| e.to_string())?;
        let (sroot, aroot) = (&so.c.data[..so.c.pos as usize], &ao.c.data[..ao.c.pos as usize]);
        if sroot != aroot || sl != al {
            return Err(format!(
                "sync: root {} bytes + leaves {} bytes; async: root {} bytes + leaves {} bytes",
                sroot.len(),
                sl.len(),
                aroot.len(),
                al.len()
            ));
        }
        Ok(())
    });
    match res {
        Err(p) => ctx.panic("util::write_directories_async", &p, mat),
        Ok(Err(e)) => ctx.violation(
            "util::write_directories_async",
            "bytes-differ-without-codec",
            "async directory writer output is not byte-identical at the root budget boundary",
            &e,
            mat,
        ),
        Ok(Ok(())) => ctx.count("boundary_twins_equal"),
    }
    ctx.case(entries_fp(list) ^ 0xb12, true);
}

fn mat_small(list: &[R::REntry], codec: u8) -> Value {
    json!({"entries": list.len(), "codec": R::codec_name(codec), "fingerprint": entries_fp(list)})
}

fn headers(ctx: &mut Ctx, i: u64) {
    let mut rng = ctx.rng("c12.hdr", i);
    for _ in 0..200 {
        let mut h = rand_header(&mut rng);
        h.min_lon = rng.next() as i32;
        h.min_lat = rng.next() as i32;
        h.max_lon = rng.next() as i32;
        h.center_lat = rng.next() as i32;
        let b = R::header_pack(&h);
        let res = guard(|| -> Result<(), String> {
            let s = Header::from_bytes(b).map_err(|e| e.to_string())?;
            let mut ar = ainst(&b, &mut rng, true);
            let a = block_on(Header::from_async_reader(&mut ar)).map_err(|e| e.to_string())?;
            let (sr, sd) = lib_to_r(&s);
            let (ar2, ad) = lib_to_r(&a);
            if sr != ar2 || sd.map(f64::to_bits) != ad.map(f64::to_bits) {
                return Err(String::from("parsed headers differ"));
            }
            let mut so = Vec::new();
            s.to_writer(&mut so).map_err(|e| e.to_string())?;
            let mut ao = ainst(&[], &mut rng, true);
            block_on(a.to_async_writer(&mut ao)).map_err(|e| e.to_string())?;
            if so != ao.c.data {
                return Err(String::from("written header bytes differ"));
            }
            Ok(())
        });
        match res {
            Err(p) => ctx.panic("Header::from_async_reader", &p, json!({"header": crate::obs::hex(&b)})),
            Ok(Err(e)) => ctx.violation("Header::from_async_reader/to_async_writer", "headers-differ", "async header codec differs from the sync one", &e, json!({"header": crate::obs::hex(&b)})),
            Ok(Ok(())) => ctx.count("headers_equal"),
        }
        ctx.case(hash_bytes(&b) ^ 0x12, true);
    }
}

/// The same edit / lookup sequence applied to a sync-opened and an async-opened archive of the same bytes: every
/// lookup, listing and count must agree after every step (state carried across async calls must not differ).
fn lockstep(ctx: &mut Ctx, i: u64) {
    use crate::checks::arch::Arch;
    let l = logical_for(ctx, "c12.lock", i * 4 + 12); // small classes
    let mut rng = ctx.rng("c12.lockr", i);
    let Ok(bytes) = write_sync(l.build()) else { return };
    let (Ok(mut s), Ok(mut a)) = (Arch::open_sync(bytes.clone()), Arch::open_async(bytes)) else {
        ctx.violation("PMTiles::from_async_reader", "readers-differ", "one reader kind refuses what the other accepts", "lockstep open", l.describe());
        return;
    };
    let ids: Vec<u64> = l.tiles.keys().copied().collect();
    if ids.is_empty() {
        return;
    }
    let mut log: Vec<String> = Vec::new();
    let mut prev_id = ids[0];
    for step in 0..rng.usize(10, 60) {
        // often the id that was looked up or edited in the previous step
        let id = if rng.chance(1, 2) {
            prev_id
        } else if rng.chance(4, 5) {
            *rng.pick(&ids)
        } else {
            rng.below(1 << 20)
        };
        prev_id = id;
        match rng.below(5) {
            0 | 1 => {
                log.push(format!("get({id})"));
            }
            2 => {
                let c = rng.bytes(rng.clone().usize(1, 20));
                log.push(format!("add({id},{}B)", c.len()));
                let _ = s.add(id, c.clone());
                let _ = a.add(id, c);
            }
            3 => {
                log.push(format!("remove({id})"));
                s.remove(id);
                a.remove(id);
            }
            _ => {
                // re-fetch the id that was fetched or edited last
                log.push(format!("get({id}) again"));
            }
        }
        let r = guard(|| (s.get(id).ok().flatten(), a.get(id).ok().flatten(), s.count(), a.count()));
        match r {
            Err(p) => {
                ctx.panic("PMTiles::get_tile_by_id_async", &p, json!({"history": log}));
                return;
            }
            Ok((gs, ga, cs, ca)) => {
                if gs != ga || cs != ca {
                    ctx.violation(
                        "PMTiles::get_tile_by_id_async",
                        "readers-differ",
                        "async archive answers differently than the sync archive after the same edit history",
                        &format!("step {step}: lookup of {id}: sync {:?} bytes, async {:?} bytes; counts {cs} / {ca}", gs.map(|g| g.len()), ga.map(|g| g.len())),
                        json!({"archive": l.describe(), "history": log}),
                    );
                    return;
                }
            }
        }
        ctx.count("lockstep_steps_equal");
    }
    if s.ids() != a.ids() {
        ctx.violation("PMTiles::tile_ids", "readers-differ", "listings differ after the same edit history", "tile_ids differ", json!({"history": log}));
    }
    ctx.case(l.fingerprint() ^ 0x10c, true);
}

/// Lookups in storage order on a sync- and an async-opened archive; now and then ONE stream operation of the lookup fails on
/// both sides (a transient fault). Both sides must fail alike, and the lookups that follow must return the tiles' bytes.
fn transient_twins(ctx: &mut Ctx, i: u64) {
    let l = logical_for(ctx, "c12.transient", i * 4 + 12);
    let mut rng = ctx.rng("c12.transientr", i);
    let Ok(bytes) = write_sync(l.build()) else { return };
    let Ok(v) = R::validate(&bytes, &crate::checks::common::strict_opts()) else { return };
    // ids ordered by where their content is stored
    let mut order: Vec<(u64, u64)> = v.abs.iter().map(|(id, (off, _))| (*off, *id)).collect();
    order.sort_unstable();
    if order.is_empty() {
        return;
    }
    let mat = json!({"archive": l.describe()});
    let s = crate::io::Shared::recording(bytes.clone());
    let a = crate::io::SharedA::recording(bytes.clone(), true);
    let (ms, ma) = (s.clone(), a.clone());
    let res = guard(|| -> Result<u64, String> {
        let mut ps = PMTiles::from_reader(s).map_err(|e| format!("sync open failed: {e}"))?;
        let mut pa = block_on(PMTiles::from_async_reader(a)).map_err(|e| format!("async open failed: {e}"))?;
        let mut n = 0u64;
        let mut fail_at: Option<usize> = None;
        for (step, (_, id)) in order.iter().cycle().take(order.len().min(40) * 2).enumerate() {
            if rng.chance(1, 5) {
                // exactly one operation of this lookup fails on both sides: its seek (0) or its read (1)
                let which = rng.below(2);
                {
                    let mut c = ms.core.lock().expect("lock");
                    c.fail_once_at = Some(c.nops + which);
                }
                {
                    let mut c = ma.core.lock().expect("lock");
                    c.fail_once_at = Some(c.nops + which);
                }
                fail_at = Some(step);
            }
            let rs = ps.get_tile_by_id(*id).map_err(|e| e.kind());
            let ra = block_on(pa.get_tile_by_id_async(*id)).map_err(|e| e.kind());
            ms.core.lock().expect("lock").fail_once_at = None;
            ma.core.lock().expect("lock").fail_once_at = None;
            let want = l.tiles.get(id).map(|c| c.as_ref().clone());
            match (&rs, &ra) {
                (Ok(x), Ok(y)) => {
                    if x != y || *x != want {
                        return Err(format!("step {step}: lookup of {id}: sync {:?} bytes, async {:?} bytes, stored {:?} bytes (last fault at step {fail_at:?})", x.as_ref().map(Vec::len), y.as_ref().map(Vec::len), want.as_ref().map(Vec::len)));
                    }
                }
                (Err(_), Err(_)) => {}
                _ => return Err(format!("step {step}: lookup of {id}: one side failed, the other did not (sync {:?}, async {:?})", rs.as_ref().map(|o| o.as_ref().map(Vec::len)), ra.as_ref().map(|o| o.as_ref().map(Vec::len)))),
            }
            n += 1;
        }
        Ok(n)
    });
    match res {
        Err(p) => ctx.panic("PMTiles::get_tile_by_id_async", &p, mat),
        Ok(Err(e)) => ctx.violation("PMTiles::get_tile_by_id_async", "readers-differ", "lookups around a transient stream fault answer differently through the async API", &e, mat),
        Ok(Ok(n)) => ctx.add("lookups_around_transient_faults_equal", n),
    }
    ctx.case(l.fingerprint() ^ 0x7a, true);
}

pub fn run(ctx: &mut Ctx) {
    let mut case = 0u64;
    for i in 0..ctx.n(150, 3000) {
        if ctx.mine(case) {
            ctx.begin(case);
            lockstep(ctx, i);
            ctx.end(case);
        }
        case += 1;
    }
    for i in 0..ctx.n(100, 2000) {
        if ctx.mine(case) {
            ctx.begin(case);
            transient_twins(ctx, i);
            ctx.end(case);
        }
        case += 1;
    }
    for i in 0..ctx.n(400, 8000) {
        if ctx.mine(case) {
            ctx.begin(case);
            writers(ctx, i);
            ctx.end(case);
        }
        case += 1;
    }
    for i in 0..ctx.n(300, 8000) {
        if ctx.mine(case) {
            ctx.begin(case);
            let mut rng = ctx.rng("c12.foreign", i);
            let o = gen::gen_foreign_opts(&mut rng, R::CODECS[(i % 4) as usize], 2000);
            let f = gen::gen_foreign(&mut rng, &o);
            archive_readers(ctx, &f.bytes, &format!("foreign {}", f.layout), &mut rng);
            ctx.case(hash_bytes(&f.bytes), f.entries.len() >= 2);
            ctx.count("foreign_archives");
            ctx.end(case);
        }
        case += 1;
    }
    for i in 0..ctx.n(200, 4000) {
        if ctx.mine(case) {
            ctx.begin(case);
            let l = logical_for(ctx, "c12.lib", i);
            let mut rng = ctx.rng("c12.libr", i);
            if let Ok(b) = write_sync(l.build()) {
                archive_readers(ctx, &b, &format!("library-written {}", l.class), &mut rng);
                ctx.case(l.fingerprint() ^ 5, l.tiles.len() >= 2);
            }
            ctx.end(case);
        }
        case += 1;
    }
    for i in 0..ctx.n(400, 6000) {
        if ctx.mine(case) {
            ctx.begin(case);
            directories(ctx, i);
            ctx.end(case);
        }
        case += 1;
    }
    for i in 0..ctx.n(16, 200) {
        if ctx.mine(case) {
            ctx.begin(case);
            headers(ctx, i);
            ctx.end(case);
        }
        case += 1;
    }
    // directory writers exactly at / around the root budget (None: sizes are an exact function of the list)
    for (k, target) in [16_255usize, 16_256, 16_257, 16_258, 16_259, 16_384].iter().enumerate() {
        if ctx.mine(case) {
            ctx.begin(case);
            let mut rng = ctx.rng("c12.steer", k as u64);
            if let Some(list) = crate::checks::c06::steer(&mut rng, *target) {
                boundary_twins(ctx, &list, &mut rng);
            } else {
                ctx.inconclusive("C12: size steering failed");
            }
            ctx.end(case);
        }
        case += 1;
    }
}
