//! Snapshot helpers over instrumented streams (used by C13).

use crate::checks::common::{dump_async, dump_sync, settings_of, Settings};
use crate::io::{AInst, Inst};
use crate::rng::hash_bytes;
use futures::executor::block_on;
use pmtiles2::PMTiles;
use std::collections::BTreeMap;

pub type Snap = (Settings, String, BTreeMap<u64, u64>);

pub fn snap_sync_plain(bytes: &[u8]) -> Result<Snap, String> {
    let mut pm = PMTiles::from_bytes(bytes.to_vec()).map_err(|e| e.to_string())?;
    let d = dump_sync(&mut pm)?;
    Ok((settings_of(&pm), serde_json::to_string(&pm.meta_data).unwrap_or_default(), d.into_iter().map(|(k, v)| (k, hash_bytes(&v))).collect()))
}

pub fn snap_sync_inst(s: &mut Inst) -> Result<Snap, String> {
    let mut pm = PMTiles::from_reader(s).map_err(|e| e.to_string())?;
    let d = dump_sync(&mut pm)?;
    Ok((settings_of(&pm), serde_json::to_string(&pm.meta_data).unwrap_or_default(), d.into_iter().map(|(k, v)| (k, hash_bytes(&v))).collect()))
}

pub fn snap_async_inst(s: &mut AInst) -> Result<Snap, String> {
    let mut pm = block_on(PMTiles::from_async_reader(s)).map_err(|e| e.to_string())?;
    let d = dump_async(&mut pm)?;
    Ok((settings_of(&pm), serde_json::to_string(&pm.meta_data).unwrap_or_default(), d.into_iter().map(|(k, v)| (k, hash_bytes(&v))).collect()))
}

pub fn snap_eq_pub(a: &Snap, b: &Snap) -> Result<(), String> {
    if a.0.tile_type != b.0.tile_type
        || a.0.tile_compression != b.0.tile_compression
        || a.0.internal_compression != b.0.internal_compression
        || a.0.zooms != b.0.zooms
        || a.0.coords.map(f64::to_bits) != b.0.coords.map(f64::to_bits)
    {
        return Err(String::from("settings differ"));
    }
    if a.1 != b.1 {
        return Err(String::from("metadata differs"));
    }
    if a.2 != b.2 {
        return Err(format!("tiles differ ({} vs {})", a.2.len(), b.2.len()));
    }
    Ok(())
}
