//! C13 — results do not depend on how the stream fragments or delays I/O.

use crate::checks::c12_support::{snap_async_inst, snap_eq_pub, snap_sync_inst, snap_sync_plain};
use crate::checks::c15::spill_logical;
use crate::checks::common::{logical_for, write_sync};
use crate::gen;
use crate::io::{AInst, Inst, Pend, Sched};
use crate::obs::{guard, hex, Ctx};
use crate::refimpl::{self as R, REntry};
use crate::rng::{hash_bytes, hash_u64s, Rng};
use futures::executor::block_on;
use pmtiles2::{Directory, Header, PMTiles};
use serde_json::json;

/// the k-th composition of n (k in 0..2^(n-1)): bit i set = cut after byte i+1
fn composition(n: usize, k: u64) -> Vec<usize> {
    let mut parts = Vec::new();
    let mut cur = 1usize;
    for i in 0..n.saturating_sub(1) {
        if k >> i & 1 == 1 {
            parts.push(cur);
            cur = 1;
        } else {
            cur += 1;
        }
    }
    if n > 0 {
        parts.push(cur);
    }
    parts
}

/// A valid list whose None encoding has exactly n bytes (n >= 1).
fn list_of_len(rng: &mut Rng, n: usize) -> Option<Vec<REntry>> {
    for _ in 0..2000 {
        let cnt = rng.usize(0, n / 4);
        let mut v = Vec::new();
        let mut id = rng.below(200);
        let mut off = 0u64;
        for _ in 0..cnt {
            let len = *rng.pick(&[1u32, 5, 127, 128, 300, 20000]);
            let run = *rng.pick(&[1u32, 1, 2, 0, 200]);
            let o = if rng.chance(1, 3) { rng.below(1 << 20) } else { off };
            v.push(REntry {
                tile_id: id,
                offset: o,
                length: len,
                run_length: run,
            });
            off = o + u64::from(len);
            id += u64::from(run.max(1)) + *rng.pick(&[0u64, 1, 130, 20000]);
        }
        if R::dir_encoded_len(&v) == n {
            return Some(v);
        }
    }
    None
}

fn dir_read(ctx: &mut Ctx, bytes: &[u8], codec: u8, want: &Directory, sched: Sched, pend: Option<Pend>, label: &str) {
    let comp = gen::comp(codec);
    let len = bytes.len() as u64;
    let desc = sched.describe();
    let api = if pend.is_some() { "Directory::from_async_reader" } else { "Directory::from_reader" };
    let mat = json!({"what": label, "bytes": hex(&bytes[..bytes.len().min(64)]), "len": bytes.len(), "codec": R::codec_name(codec), "read_schedule": desc, "pending": pend.as_ref().map(|p| format!("{p:?}").chars().take(80).collect::<String>())});
    let r = if let Some(p) = pend {
        let mut s = AInst::new(bytes.to_vec());
        s.c.rsched = sched;
        s.pend = p;
        let r = guard(|| block_on(Directory::from_async_reader(&mut s, len, comp)));
        ctx.add("pending_answers", s.pendings);
        ctx.add("short_transfers", s.c.short_transfers);
        r
    } else {
        let mut s = Inst::new(bytes.to_vec());
        s.c.rsched = sched;
        let r = guard(|| Directory::from_reader(&mut s, len, comp));
        ctx.add("short_transfers", s.c.short_transfers);
        r
    };
    match r {
        Err(p) => ctx.panic(api, &p, mat),
        Ok(Err(e)) => ctx.violation(api, "fragmented-read-fails", "reader fails under a fragmented/delayed stream", &format!("{label}: schedule {desc}: {e}"), mat),
        Ok(Ok(d)) => {
            if &d == want {
                ctx.count("dir_reads_equal");
            } else {
                ctx.violation(api, "fragmented-read-differs", "reader returns a different result under a fragmented/delayed stream", &format!("{label}: schedule {desc}"), mat);
            }
        }
    }
}

fn dir_write(ctx: &mut Ctx, d: &Directory, codec: u8, want: &[u8], want_async: &[u8], sched: Sched, pend: Option<Pend>, label: &str) {
    let comp = gen::comp(codec);
    let desc = sched.describe();
    let api = if pend.is_some() { "Directory::to_async_writer" } else { "Directory::to_writer" };
    let mat = json!({"what": label, "codec": R::codec_name(codec), "write_schedule": desc});
    let (r, data, expect) = if let Some(p) = pend {
        let mut s = AInst::new(Vec::new());
        s.c.wsched = sched;
        s.pend = p;
        let r = guard(|| block_on(d.to_async_writer(&mut s, comp)));
        ctx.add("pending_answers", s.pendings);
        ctx.add("short_transfers", s.c.short_transfers);
        (r, s.c.data, want_async)
    } else {
        let mut s = Inst::new(Vec::new());
        s.c.wsched = sched;
        let r = guard(|| d.to_writer(&mut s, comp));
        ctx.add("short_transfers", s.c.short_transfers);
        (r, s.c.data, want)
    };
    match r {
        Err(p) => ctx.panic(api, &p, mat),
        Ok(Err(e)) => ctx.violation(api, "fragmented-write-fails", "writer fails under short writes / Pending", &format!("{label}: schedule {desc}: {e}"), mat),
        Ok(Ok(())) => {
            if data == expect {
                ctx.count("dir_writes_equal");
            } else {
                ctx.violation(
                    api,
                    "fragmented-write-differs",
                    "writer emits different bytes under short writes / Pending",
                    &format!("{label}: schedule {desc}: {} bytes written, unfragmented output has {}", data.len(), expect.len()),
                    mat,
                );
            }
        }
    }
}

fn reference_outputs(d: &Directory, codec: u8) -> Option<(Vec<u8>, Vec<u8>)> {
    let comp = gen::comp(codec);
    let mut s = Vec::new();
    d.to_writer(&mut s, comp).ok()?;
    let mut a = futures::io::Cursor::new(Vec::new());
    block_on(d.to_async_writer(&mut a, comp)).ok()?;
    Some((s, a.into_inner()))
}

pub fn run(ctx: &mut Ctx) {
    let mut case = 0u64;
    // ---- 1. every composition of small None-encoded directories (read and write, sync and async)
    let maxn = ctx.n(16, 22) as usize;
    for n in 1..=maxn {
        // a valid directory encodes to 1 byte (empty) or at least 5 bytes (count + four columns)
        if (2..=4).contains(&n) {
            continue;
        }
        let total: u64 = 1 << (n - 1);
        let block = 4096u64;
        for blk in 0..total.div_ceil(block) {
            if ctx.mine(case) {
                ctx.begin(case);
                let mut rng = ctx.rng("c13.small", n as u64 * 1000 + blk);
                let Some(list) = list_of_len(&mut rng, n) else {
                    ctx.inconclusive(&format!("no valid directory with a {n}-byte encoding found"));
                    ctx.end(case);
                    case += 1;
                    continue;
                };
                let d = Directory::from(gen::to_lib_entries(&list));
                let bytes = R::dir_encode(&list);
                let (ws, wa) = reference_outputs(&d, R::C_NONE).expect("reference outputs");
                let mut cnt = 0u64;
                for k in blk * block..((blk + 1) * block).min(total) {
                    let comp = composition(n, k);
                    let asyncm = k % 3 == 0;
                    let pend = if asyncm { Some(Pend::Bits((0..24).map(|b| (k >> (b % 12)) & 1 == 1 && b % 2 == 0).collect(), 0)) } else { None };
                    dir_read(ctx, &bytes, R::C_NONE, &d, Sched::List(comp.clone(), 0), pend.clone(), "small directory");
                    dir_write(ctx, &d, R::C_NONE, &ws, &wa, Sched::List(comp, 0), pend, "small directory");
                    cnt += 1;
                }
                ctx.enumerated(cnt, cnt);
                ctx.add("compositions_executed", cnt);
                ctx.end(case);
            }
            case += 1;
        }
    }
    ctx.extra("exhaustive_compositions_up_to_bytes", json!(maxn));
    // ---- 2. codec directories: every fixed chunk size, every two-part split, random compositions
    for i in 0..ctx.n(24, 600) {
        if ctx.mine(case) {
            ctx.begin(case);
            let mut rng = ctx.rng("c13.codec", i);
            let codec = R::CODECS[(i % 4) as usize];
            let n_entries = if i % 8 < 6 { rng.usize(1, 40) } else { rng.usize(200, 3000) };
            let list = gen::gen_entries(&mut rng, n_entries, true, true);
            let d = Directory::from(gen::to_lib_entries(&list));
            let Some((ws, wa)) = reference_outputs(&d, codec) else {
                ctx.inconclusive("reference directory output failed");
                ctx.end(case);
                case += 1;
                continue;
            };
            let len = ws.len();
            let mut scheds: Vec<Sched> = Vec::new();
            // brotli at quality 11 costs tens of ms per large directory: fewer schedules for big ones
            let step = (len / if len > 2000 { ctx.n(24, 120) as usize } else { 300 }).max(1);
            for c in (1..=len).step_by(step) {
                scheds.push(Sched::Fixed(c));
            }
            for c in (1..len).step_by(step) {
                scheds.push(Sched::List(vec![c], 0)); // two-part split: c then the rest
            }
            for _ in 0..20 {
                let m = *rng.pick(&[1usize, 2, 3, 7, 64, 4096]);
                scheds.push(Sched::Random(Rng::new(rng.next()), m));
            }
            for (k, s) in scheds.into_iter().enumerate() {
                let pend = match k % 4 {
                    0 => None,
                    1 => Some(Pend::Alternate),
                    2 => Some(Pend::Random(Rng::new(rng.next()), 1, 2)),
                    _ => None,
                };
                dir_read(ctx, &ws, codec, &d, s.clone(), pend.clone(), "codec directory");
                dir_write(ctx, &d, codec, &ws, &wa, s, pend, "codec directory");
                ctx.count("codec_directory_schedules");
            }
            ctx.case(gen::entries_fp(&list) ^ 0x13, true);
            ctx.end(case);
        }
        case += 1;
    }
    // ---- 3. headers: every fixed chunk 1..127 and every two-part split
    if ctx.mine(case) {
        ctx.begin(case);
        let mut rng = ctx.rng("c13.header", 0);
        for rep in 0..ctx.n(2, 10) {
            let mut h = crate::checks::c09::rand_header(&mut rng);
            h.internal_compression = 1 + (rep % 4) as u8;
            let b = R::header_pack(&h).to_vec();
            let base = Header::from_bytes(&b).expect("valid header");
            let mut base_out = Vec::new();
            base.to_writer(&mut base_out).expect("header write");
            let mut scheds: Vec<Sched> = (1..=127).map(Sched::Fixed).collect();
            scheds.extend((1..127).map(|c| Sched::List(vec![c], 0)));
            for (k, s) in scheds.into_iter().enumerate() {
                let asyncm = k % 2 == 1;
                let desc = s.describe();
                let mat = json!({"what": "header", "schedule": desc, "async": asyncm});
                let (rd, wr): (Result<Result<Vec<u8>, std::io::Error>, _>, Result<Result<Vec<u8>, std::io::Error>, _>) = if asyncm {
                    let mut r = AInst::new(b.clone());
                    r.c.rsched = s.clone();
                    r.pend = Pend::Alternate;
                    let rd = guard(|| {
                        block_on(Header::from_async_reader(&mut r)).map(|h| {
                            let mut o = Vec::new();
                            let _ = h.to_writer(&mut o);
                            o
                        })
                    });
                    let mut w = AInst::new(Vec::new());
                    w.c.wsched = s;
                    w.pend = Pend::Random(Rng::new(rng.next()), 1, 2);
                    let wr = guard(|| block_on(base.to_async_writer(&mut w)).map(|()| w.c.data.clone()));
                    (rd, wr)
                } else {
                    let mut r = Inst::new(b.clone());
                    r.c.rsched = s.clone();
                    let rd = guard(|| {
                        Header::from_reader(&mut r).map(|h| {
                            let mut o = Vec::new();
                            let _ = h.to_writer(&mut o);
                            o
                        })
                    });
                    let mut w = Inst::new(Vec::new());
                    w.c.wsched = s;
                    let wr = guard(|| base.to_writer(&mut w).map(|()| w.c.data.clone()));
                    (rd, wr)
                };
                for (name, r) in [("read", rd), ("write", wr)] {
                    match r {
                        Err(p) => ctx.panic("Header", &p, mat.clone()),
                        Ok(Ok(o)) if o == base_out => ctx.count("header_schedules_equal"),
                        Ok(other) => ctx.violation(
                            if asyncm { "Header (async)" } else { "Header" },
                            "fragmented-header",
                            &format!("header {name} depends on the fragmentation schedule"),
                            &format!("schedule {desc}: {:?}", other.map(|o| o.len()).map_err(|e| e.to_string())),
                            mat.clone(),
                        ),
                    }
                }
            }
            ctx.case(hash_bytes(&b) ^ 0x13, true);
        }
        ctx.end(case);
    }
    case += 1;
    // ---- 4. whole archives (with leaves, 4 codecs): fixed chunk sizes and random schedules, read and write
    for i in 0..ctx.n(24, 1500) {
        if ctx.mine(case) {
            ctx.begin(case);
            let mut rng = ctx.rng("c13.arch", i);
            let codec = R::CODECS[(i % 4) as usize];
            let l = if i % 24 == 11 {
                // more than 2^24 bytes of tile data (two contents above 16 MiB) through short writes and short reads
                ctx.count("archives_above_16_mib");
                let len = (1 << 24) + rng.usize(1, 90_000);
                crate::gen::gen_huge_tiles(&mut rng, codec, len)
            } else if i % 5 == 0 { spill_logical(&mut rng, codec, if codec == R::C_NONE { 2200 } else { 6000 }) } else { logical_for(ctx, "c13.logical", i) };
            let mut l = l;
            if i % 6 == 1 {
                // a metadata section far above 64 KiB (sections read in several pieces)
                l.meta = crate::gen::gen_metadata_large(&mut rng);
                ctx.count("archives_with_metadata_above_64_kib");
            }
            let Ok(bytes) = write_sync(l.build()) else {
                ctx.inconclusive("reference write failed");
                ctx.end(case);
                case += 1;
                continue;
            };
            let async_bytes = crate::checks::common::write_async(l.build_async()).unwrap_or_default();
            let base = snap_sync_plain(&bytes);
            let base_rewrite: Result<Vec<u8>, String> = PMTiles::from_bytes(bytes.clone()).and_then(write_sync).map_err(|e| e.to_string());
            let has_leaves = R::header_unpack(&bytes).map(|h| h.leaf_length > 0).unwrap_or(false);
            let mut scheds: Vec<Sched> = [1usize, 2, 3, 7, 64, 4096].iter().map(|c| Sched::Fixed(*c)).collect();
            for _ in 0..4 {
                scheds.push(Sched::Random(Rng::new(rng.next()), *rng.pick(&[1usize, 5, 100, 5000])));
            }
            // block-oriented streams: a transfer never crosses a multiple of the block size
            scheds.push(Sched::Page(*rng.pick(&[100usize, 127, 512, 4096])));
            if bytes.len() > 400_000 || (ctx.quick() && bytes.len() > 60_000) {
                scheds.retain(|s| !matches!(s, Sched::Fixed(1) | Sched::Fixed(2) | Sched::Fixed(3)));
            }
            if bytes.len() > (16 << 20) {
                // chunk sizes that make the number of stream operations bearable, plus sizes around 1 MiB
                scheds = vec![Sched::Fixed(4096), Sched::Fixed(65_536), Sched::Fixed((1 << 20) - 1), Sched::Random(Rng::new(rng.next()), 1 << 20), Sched::Random(Rng::new(rng.next()), 3000)];
            }
            for (k, s) in scheds.into_iter().enumerate() {
                let desc = s.describe();
                let mat = json!({"archive": l.describe(), "schedule": desc});
                let pend = match k % 3 {
                    0 => Pend::Alternate,
                    1 => Pend::Random(Rng::new(rng.next()), 1, 3),
                    _ => Pend::Never,
                };
                // read, sync
                let mut rs = Inst::new(bytes.clone());
                rs.c.rsched = s.clone();
                match guard(|| snap_sync_inst(&mut rs)) {
                    Err(p) => ctx.panic("PMTiles::from_reader", &p, mat.clone()),
                    Ok(got) => match (&base, &got) {
                        (Ok(b), Ok(g)) if snap_eq_pub(b, g).is_ok() => ctx.count("archive_reads_equal"),
                        _ => ctx.violation("PMTiles::from_reader", "fragmented-read-differs", "archive read depends on the fragmentation schedule", &format!("schedule {desc}: {:?}", got.as_ref().err()), mat.clone()),
                    },
                }
                ctx.add("short_transfers", rs.c.short_transfers);
                // re-write of the archive opened through the fragmenting reader (tiles are fetched from it while writing): the
                // output must equal the re-write of the same archive opened from memory
                if bytes.len() < (4 << 20) {
                    let mut src = Inst::new(bytes.clone());
                    src.c.rsched = s.clone();
                    let r = guard(|| -> std::io::Result<Vec<u8>> {
                        let pm = PMTiles::from_reader(&mut src)?;
                        write_sync(pm)
                    });
                    match (&base_rewrite, r) {
                        (_, Err(p)) => ctx.panic("PMTiles::to_writer", &p, mat.clone()),
                        (Ok(want), Ok(Ok(got))) if *want == got => ctx.count("rewrites_through_fragmented_reader_equal"),
                        (Ok(want), Ok(got)) => ctx.violation(
                            "PMTiles::to_writer",
                            "fragmented-read-differs",
                            "re-writing an opened archive depends on how its reader fragments reads",
                            &format!("schedule {desc}: {} bytes vs {} ({:?})", got.as_ref().map_or(0, Vec::len), want.len(), got.as_ref().err().map(|e| e.to_string())),
                            mat.clone(),
                        ),
                        (Err(_), _) => {}
                    }
                }
                // read, async
                let mut ra = AInst::new(bytes.clone());
                ra.c.rsched = s.clone();
                ra.pend = pend.clone();
                match guard(|| snap_async_inst(&mut ra)) {
                    Err(p) => ctx.panic("PMTiles::from_async_reader", &p, mat.clone()),
                    Ok(got) => match (&base, &got) {
                        (Ok(b), Ok(g)) if snap_eq_pub(b, g).is_ok() => ctx.count("archive_reads_equal_async"),
                        _ => ctx.violation("PMTiles::from_async_reader", "fragmented-read-differs", "async archive read depends on fragmentation / Pending", &format!("schedule {desc}: {:?}", got.as_ref().err()), mat.clone()),
                    },
                }
                ctx.add("pending_answers", ra.pendings);
                // write, sync
                let mut ws = Inst::new(Vec::new());
                ws.c.wsched = s.clone();
                match guard(|| l.build().to_writer(&mut ws)) {
                    Err(p) => ctx.panic("PMTiles::to_writer", &p, mat.clone()),
                    Ok(Ok(())) if ws.c.data == bytes => ctx.count("archive_writes_equal"),
                    Ok(r) => ctx.violation("PMTiles::to_writer", "fragmented-write-differs", "archive writer output depends on short writes", &format!("schedule {desc}: {:?}; {} bytes vs {}", r.err().map(|e| e.to_string()), ws.c.data.len(), bytes.len()), mat.clone()),
                }
                ctx.add("short_transfers", ws.c.short_transfers);
                // write, async
                let mut wa = AInst::new(Vec::new());
                wa.c.wsched = s;
                wa.pend = pend;
                match guard(|| block_on(l.build_async().to_async_writer(&mut wa))) {
                    Err(p) => ctx.panic("PMTiles::to_async_writer", &p, mat.clone()),
                    Ok(Ok(())) if wa.c.data == async_bytes => ctx.count("archive_writes_equal_async"),
                    Ok(r) => ctx.violation("PMTiles::to_async_writer", "fragmented-write-differs", "async archive writer output depends on short writes / Pending", &format!("schedule {desc}: {:?}; {} bytes vs {}", r.err().map(|e| e.to_string()), wa.c.data.len(), async_bytes.len()), mat.clone()),
                }
                ctx.add("pending_answers", wa.pendings);
                ctx.count("archive_schedules");
            }
            if has_leaves {
                ctx.count("archives_with_leaves");
            }
            ctx.case(hash_u64s(&[l.fingerprint(), 13]), true);
            if ctx.want_sample() {
                ctx.sample(json!({"archive": l.describe(), "schedules": "fixed 1,2,3,7,64,4096 + 4 random, x {sync, async+pending} x {read, write}"}));
            }
            ctx.end(case);
        }
        case += 1;
    }
    // ---- 5. every Pending pattern over the first 12 polls (small archive: open + lookups + write)
    let l = logical_for(ctx, "c13.pend", 9);
    if let (Ok(bytes), Ok(abytes)) = (write_sync(l.build()), crate::checks::common::write_async(l.build_async())) {
        let base = snap_sync_plain(&bytes);
        let block = 256u64;
        for blk in 0..(4096 / block) {
            if ctx.mine(case) {
                ctx.begin(case);
                for k in blk * block..(blk + 1) * block {
                    let bits: Vec<bool> = (0..12).map(|b| k >> b & 1 == 1).collect();
                    let mut ra = AInst::new(bytes.clone());
                    ra.pend = Pend::Bits(bits.clone(), 0);
                    let got = guard(|| snap_async_inst(&mut ra));
                    let ok_r = matches!((&base, &got), (Ok(b), Ok(Ok(g))) if snap_eq_pub(b, g).is_ok());
                    let mut wa = AInst::new(Vec::new());
                    wa.pend = Pend::Bits(bits.clone(), 0);
                    let w = guard(|| block_on(l.build_async().to_async_writer(&mut wa)));
                    let ok_w = matches!(w, Ok(Ok(()))) && wa.c.data == abytes;
                    if ok_r && ok_w {
                        ctx.count("pending_patterns_equal");
                    } else {
                        ctx.violation("PMTiles (async)", "pending-pattern", "result depends on the Pending/Ready interleaving", &format!("pattern {bits:?}: read ok={ok_r}, write ok={ok_w}"), json!({"pattern": bits}));
                    }
                }
                ctx.enumerated(block, block);
                ctx.end(case);
            }
            case += 1;
        }
        ctx.extra("pending_patterns_exhaustive_over_first_polls", json!(12));
    }
}
