//! C14 — compression helpers are exact inverses for every codec and chunking.

use crate::gen;
use crate::io::{AInst, Inst, Pend, Sched};
use crate::obs::{guard, Ctx};
use crate::refimpl::{self as R, CodecParams};
use crate::rng::{hash_bytes, Rng};
use futures::executor::block_on;
use futures::{AsyncReadExt, AsyncWriteExt};
use pmtiles2::util::{compress, compress_all, compress_async, decompress, decompress_all, decompress_async};
use pmtiles2::Compression;
use serde_json::{json, Value};
use std::io::{Read, Write};

fn payload(rng: &mut Rng, kind: u64, max: usize) -> (String, Vec<u8>) {
    match kind % 11 {
        9 => {
            // segments that alternate between incompressible and highly compressible (an incompressible prefix of 32 KiB or
            // more first, so that later compressed blocks refer back into stored ones)
            let mut v = Vec::new();
            let segs = rng.usize(2, 6);
            for sidx in 0..segs {
                let n = rng.usize(33_000, 150_000.min(max.max(40_000)));
                if sidx % 2 == 0 {
                    v.extend(rng.bytes(n));
                } else {
                    let from = v.len().saturating_sub(20_000);
                    let pat: Vec<u8> = v[from..from + 64.min(v.len() - from)].to_vec();
                    while v.len() < from + 20_000 + n {
                        v.extend_from_slice(&pat);
                    }
                }
            }
            (format!("alternating incompressible/compressible segments, {} bytes", v.len()), v)
        }
        10 => {
            // incompressible data whose length is an exact multiple of the largest stored deflate block (65535) or of a window
            let n = *rng.pick(&[65_535usize, 2 * 65_535, 3 * 65_535, 32_768, 65_536, 131_072, 5 * 65_535 + 1, 65_534]);
            (format!("incompressible {n} bytes (block multiple)"), rng.bytes(n))
        }
        0 => (String::from("empty"), Vec::new()),
        1 => (String::from("one byte"), vec![rng.next() as u8]),
        2 => {
            let n = rng.usize(2, max.min(200_000));
            (format!("run of {n} equal bytes"), vec![rng.next() as u8; n])
        }
        3 => {
            let n = rng.usize(2, max.min(400_000));
            let words = ["tile", "layer", "{\"a\":", "1,", "name", " ", "\n", "pmtiles", "0000"];
            let mut v = Vec::with_capacity(n + 8);
            while v.len() < n {
                v.extend_from_slice(words[rng.usize(0, words.len() - 1)].as_bytes());
            }
            v.truncate(n);
            (format!("text of {n} bytes"), v)
        }
        4 => {
            let n = rng.usize(2, max.min(300_000));
            (format!("incompressible {n} bytes"), rng.bytes(n))
        }
        5 => {
            let n = rng.usize(1, 40);
            (format!("tiny {n} bytes"), rng.bytes(n))
        }
        6 => {
            // sizes around codec block / buffer boundaries
            let n = *rng.pick(&[4095usize, 4096, 4097, 32767, 32768, 32769, 65535, 65536, 65537, 131_072, 131_073]);
            (format!("boundary size {n}"), if rng.chance(1, 2) { rng.bytes(n) } else { vec![7u8; n] })
        }
        7 => {
            let n = rng.usize(max / 4, max);
            let mut v = rng.bytes(n / 16 + 1);
            while v.len() < n {
                let l = v.len().min(n - v.len());
                v.extend_from_within(..l);
            }
            (format!("large repetitive {n} bytes"), v)
        }
        _ => {
            let n = rng.usize(max / 8, max / 2);
            (format!("large random {n} bytes"), rng.bytes(n))
        }
    }
}

/// Payloads that start like (or are) a compressed stream of one of the codecs: magic numbers, nested streams.
fn nested_payloads(rng: &mut Rng) -> Vec<(String, Vec<u8>)> {
    let inner = rng.bytes(300);
    let mut v: Vec<(String, Vec<u8>)> = Vec::new();
    for c in [R::C_GZIP, R::C_BROTLI, R::C_ZSTD] {
        if let Ok(z) = R::codec_compress(c, &inner, &CodecParams::plain()) {
            v.push((format!("nested {} stream", R::codec_name(c)), z.clone()));
            let mut t = z;
            t.truncate(t.len() / 2);
            v.push((format!("nested truncated {} stream", R::codec_name(c)), t));
        }
    }
    v.push((String::from("nested gzip magic only"), vec![0x1f, 0x8b, 0x08]));
    v.push((String::from("nested gzip magic + junk"), {
        let mut b = vec![0x1f, 0x8b, 0x08, 0x00];
        b.extend(rng.bytes(40));
        b
    }));
    v.push((String::from("nested zstd magic + junk"), {
        let mut b = vec![0x28, 0xb5, 0x2f, 0xfd];
        b.extend(rng.bytes(40));
        b
    }));
    v
}

fn mat(name: &str, x: &[u8], codec: u8, extra: &str) -> Value {
    json!({"payload": name, "len": x.len(), "fingerprint": hash_bytes(x), "codec": R::codec_name(codec), "mode": extra,
           "head": crate::obs::hex(&x[..x.len().min(32)])})
}

fn one_shot(ctx: &mut Ctx, name: &str, x: &[u8], codec: u8, rng: &mut Rng, py_dir: Option<&std::path::Path>, py_left: &mut u64) {
    let comp = gen::comp(codec);
    let z = match guard(|| compress_all(comp, x)) {
        Ok(Ok(z)) => z,
        Ok(Err(e)) => {
            ctx.violation("util::compress_all", "error", "compressing failed", &e.to_string(), mat(name, x, codec, "one-shot"));
            return;
        }
        Err(p) => {
            ctx.panic("util::compress_all", &p, mat(name, x, codec, "one-shot"));
            return;
        }
    };
    // a failed call right before must not influence the next one (no state carried between calls): feed a
    // truncated and a corrupted copy of the stream first; whatever they return is not judged here
    if codec != R::C_NONE && z.len() >= 4 {
        let cut = z.len() - (z.len() / 3).max(1);
        let _ = guard(|| decompress_all(comp, &z[..cut]).map(|y| y.len()));
        let mut bad = z.clone();
        let at = bad.len() / 2;
        bad[at] ^= 0x55;
        let _ = guard(|| decompress_all(comp, &bad).map(|y| y.len()));
        ctx.count("failed_calls_before_valid_one");
    }
    match guard(|| decompress_all(comp, &z)) {
        Ok(Ok(y)) if y == x => ctx.count("one_shot_inverse_ok"),
        Ok(Ok(y)) => ctx.violation("util::decompress_all", "not-inverse", "decompress_all(compress_all(x)) != x", &format!("{} bytes in, {} bytes back", x.len(), y.len()), mat(name, x, codec, "one-shot")),
        Ok(Err(e)) => ctx.violation("util::decompress_all", "not-inverse", "decompress_all rejects compress_all's output", &e.to_string(), mat(name, x, codec, "one-shot")),
        Err(p) => ctx.panic("util::decompress_all", &p, mat(name, x, codec, "one-shot")),
    }
    // the compressed form is a standard stream for the upstream codec (exactly one stream, fully consumed)
    match R::codec_decompress_consumed(codec, &z, x.len() + 1024) {
        Ok((y, used)) if y == x && used == z.len() => ctx.count("upstream_decodes_ok"),
        Ok((y, used)) => ctx.violation(
            "util::compress_all",
            "non-standard-stream",
            "upstream decoder does not decode the output to the same bytes",
            &format!("upstream decoder returned {} bytes (input {}), consumed {used} of {} compressed bytes", y.len(), x.len(), z.len()),
            mat(name, x, codec, "one-shot"),
        ),
        Err(e) => ctx.violation("util::compress_all", "non-standard-stream", "upstream decoder rejects the output", &e, mat(name, x, codec, "one-shot")),
    }
    // streams produced by the upstream codecs with other parameters / framing are decoded
    let p = CodecParams::random(rng);
    if let Ok(fz) = R::codec_compress(codec, x, &p) {
        match guard(|| decompress_all(comp, &fz)) {
            Ok(Ok(y)) if y == x => ctx.count("foreign_streams_decoded"),
            Ok(other) => ctx.violation("util::decompress_all", "foreign-stream", "a standard stream from the upstream encoder is not decoded to its content", &format!("{:?}", other.map(|y| y.len()).map_err(|e| e.to_string())), mat(name, x, codec, "foreign stream")),
            Err(pn) => ctx.panic("util::decompress_all", &pn, mat(name, x, codec, "foreign stream")),
        }
    }
    if codec == R::C_GZIP && *py_left > 0 && x.len() <= 2_000_000 {
        if let Some(d) = py_dir {
            let base = d.join(format!("gz_{}_{}", ctx.shard, *py_left));
            if std::fs::write(base.with_extension("gz"), &z).is_ok() && std::fs::write(base.with_extension("raw"), x).is_ok() {
                *py_left -= 1;
            }
        }
    }
}

/// Back-to-back calls on near-identical inputs: x, then a sibling of the same length that differs from x in one byte (middle,
/// a third, first or last byte), then x again — each result must decompress to the input of ITS call (no result may depend on
/// an earlier call on the same thread).
fn siblings(ctx: &mut Ctx, name: &str, x: &[u8], codec: u8, rng: &mut Rng) {
    if x.len() < 2 {
        return;
    }
    let comp = gen::comp(codec);
    let at = match rng.below(5) {
        0 | 1 => x.len() / 2,
        2 => x.len() / 3,
        3 => 0,
        _ => x.len() - 1,
    };
    let mut x2 = x.to_vec();
    x2[at] ^= 1 << rng.below(8);
    let seq: [(&str, &[u8]); 3] = [("first call", x), ("sibling right after", &x2), ("original again", x)];
    for (what, inp) in seq {
        let m = || mat(name, inp, codec, &format!("back-to-back near-identical inputs ({what}; sibling differs at byte {at})"));
        match guard(|| compress_all(comp, inp).and_then(|z| decompress_all(comp, &z))) {
            Ok(Ok(y)) if y == inp => ctx.count("back_to_back_sibling_calls_ok"),
            Ok(Ok(y)) => {
                let d = y.iter().zip(inp.iter()).position(|(a, b)| a != b).unwrap_or(y.len().min(inp.len()));
                ctx.violation("util::compress_all", "not-inverse", "decompress_all(compress_all(x)) != x", &format!("{what}: {} bytes in, {} bytes back, first difference at byte {d}", inp.len(), y.len()), m());
            }
            Ok(Err(e)) => ctx.violation("util::compress_all", "not-inverse", "round trip of a back-to-back call fails", &e.to_string(), m()),
            Err(p) => ctx.panic("util::compress_all", &p, m()),
        }
    }
}

fn streamed(ctx: &mut Ctx, name: &str, x: &[u8], codec: u8, chunks: &Sched, under: &Sched, asyncm: bool, rng: &mut Rng) {
    let comp = gen::comp(codec);
    // half of the streams are flushed now and then in the middle (write, flush, write, ...): legal, and the stream must stay one
    // standard stream that decodes to the input
    let mid_flush = (hash_bytes(x) ^ u64::from(codec) ^ chunks.describe().len() as u64) % 2 == 0;
    let mode = format!("streamed chunks={} stream={} async={asyncm} flushes-in-between={mid_flush}", chunks.describe(), under.describe());
    let m = mat(name, x, codec, &mode);
    // ---- write side
    let z: Vec<u8> = if asyncm {
        let mut out = AInst::new(Vec::new());
        out.c.wsched = under.clone();
        out.pend = Pend::Random(Rng::new(rng.next()), 1, 3);
        let mut sch = chunks.clone();
        // every third stream goes into a sink that buffers internally: closing the adapter must push everything
        // down to the final destination (AsyncWrite::close flushes), not just into the nearest buffer
        let buffered = (hash_bytes(x) ^ rng.next()) % 3 == 0;
        let cap = *rng.pick(&[1usize, 16, 4096, 1 << 20]);
        let r = guard(|| {
            block_on(async {
                if buffered {
                    let mut bw = futures::io::BufWriter::with_capacity(cap, &mut out);
                    let mut w = compress_async(comp, &mut bw)?;
                    let mut at = 0usize;
                    while at < x.len() {
                        let n = next_chunk(&mut sch, x.len() - at);
                        w.write_all(&x[at..at + n]).await?;
                        at += n;
                        if mid_flush && at < x.len() && (at / n.max(1)) % 3 == 1 {
                            w.flush().await?;
                        }
                    }
                    w.close().await
                } else {
                    let mut w = compress_async(comp, &mut out)?;
                    let mut at = 0usize;
                    while at < x.len() {
                        let n = next_chunk(&mut sch, x.len() - at);
                        w.write_all(&x[at..at + n]).await?;
                        at += n;
                        if mid_flush && at < x.len() && (at / n.max(1)) % 3 == 1 {
                            w.flush().await?;
                        }
                    }
                    w.close().await
                }
            })
        });
        if buffered {
            ctx.count("async_streams_into_buffering_sink");
        }
        match r {
            Ok(Ok(())) => out.c.data,
            Ok(Err(e)) => {
                ctx.violation("util::compress_async", "error", "streaming compression failed", &e.to_string(), m);
                return;
            }
            Err(p) => {
                ctx.panic("util::compress_async", &p, m);
                return;
            }
        }
    } else {
        let mut out = Inst::new(Vec::new());
        out.c.wsched = under.clone();
        let mut sch = chunks.clone();
        let buffered = (hash_bytes(x) ^ rng.next()) % 3 == 0;
        let cap = *rng.pick(&[1usize, 16, 4096, 1 << 20]);
        let r = guard(|| -> std::io::Result<()> {
            if buffered {
                // a std BufWriter between the adapter and the destination; the caller flushes it after dropping the adapter
                let mut bw = std::io::BufWriter::with_capacity(cap, &mut out);
                {
                    let mut w = compress(comp, &mut bw)?;
                    let mut at = 0usize;
                    while at < x.len() {
                        let n = next_chunk(&mut sch, x.len() - at);
                        w.write_all(&x[at..at + n])?;
                        at += n;
                        if mid_flush && at < x.len() && (at / n.max(1)) % 3 == 1 {
                            w.flush()?;
                        }
                    }
                    w.flush()?;
                }
                bw.flush()?;
                return Ok(());
            }
            let mut w = compress(comp, &mut out)?;
            let mut at = 0usize;
            while at < x.len() {
                let n = next_chunk(&mut sch, x.len() - at);
                w.write_all(&x[at..at + n])?;
                at += n;
                if mid_flush && at < x.len() && (at / n.max(1)) % 3 == 1 {
                    w.flush()?;
                }
            }
            w.flush()?; // documented usage: flush, then drop finishes the stream
            drop(w);
            Ok(())
        });
        if buffered {
            ctx.count("sync_streams_into_buffering_sink");
        }
        match r {
            Ok(Ok(())) => out.c.data,
            Ok(Err(e)) => {
                ctx.violation("util::compress", "error", "streaming compression failed", &e.to_string(), m);
                return;
            }
            Err(p) => {
                ctx.panic("util::compress", &p, m);
                return;
            }
        }
    };
    match R::codec_decompress_consumed(codec, &z, x.len() + 1024) {
        Ok((y, used)) if y == x && used == z.len() => ctx.count("streamed_writes_decode_upstream"),
        Ok((y, used)) => {
            ctx.violation(
                if asyncm { "util::compress_async" } else { "util::compress" },
                "non-standard-stream",
                "streamed output is not a complete standard stream of the input",
                &format!("upstream decoder returned {} bytes (input {}), consumed {used} of {}", y.len(), x.len(), z.len()),
                m.clone(),
            );
            return;
        }
        Err(e) => {
            ctx.violation(if asyncm { "util::compress_async" } else { "util::compress" }, "non-standard-stream", "streamed output is rejected by the upstream decoder", &e, m.clone());
            return;
        }
    }
    // ---- read side: the adapter over a fragmenting stream, read in chunks
    let back: Result<Result<Vec<u8>, std::io::Error>, _> = if asyncm {
        let mut inp = AInst::new(z.clone());
        inp.c.rsched = under.clone();
        inp.pend = Pend::Alternate;
        let mut sch = chunks.clone();
        guard(|| {
            block_on(async {
                let mut r = decompress_async(comp, &mut inp)?;
                let mut out = Vec::new();
                let mut buf = vec![0u8; 70_000];
                let mut turn = 0u32;
                loop {
                    turn += 1;
                    if turn % 5 == 2 {
                        // a read into an empty buffer in the middle of the stream (returns 0 and must change nothing)
                        let _ = r.read(&mut buf[..0]).await;
                    }
                    let want = next_chunk(&mut sch, buf.len());
                    let n = r.read(&mut buf[..want]).await?;
                    if n == 0 {
                        break;
                    }
                    out.extend_from_slice(&buf[..n]);
                }
                Ok(out)
            })
        })
    } else {
        let mut inp = Inst::new(z.clone());
        inp.c.rsched = under.clone();
        let mut sch = chunks.clone();
        guard(|| {
            let mut r = decompress(comp, &mut inp)?;
            let mut out = Vec::new();
            let mut buf = vec![0u8; 70_000];
            let mut turn = 0u32;
            loop {
                turn += 1;
                if turn % 5 == 2 {
                    // a read into an empty buffer; what it answers is not judged (the upstream zstd reader reports an error for
                    // it), but the stream must go on unharmed afterwards
                    let _ = r.read(&mut buf[..0]);
                }
                let want = next_chunk(&mut sch, buf.len());
                let n = r.read(&mut buf[..want])?;
                if n == 0 {
                    break;
                }
                out.extend_from_slice(&buf[..n]);
            }
            Ok(out)
        })
    };
    let api = if asyncm { "util::decompress_async" } else { "util::decompress" };
    match back {
        Ok(Ok(y)) if y == x => ctx.count("streamed_reads_equal"),
        Ok(Ok(y)) => ctx.violation(api, "not-inverse", "streamed decompression returns different bytes", &format!("{} bytes in, {} back", x.len(), y.len()), m),
        Ok(Err(e)) => ctx.violation(api, "not-inverse", "streamed decompression fails on the library's own stream", &e.to_string(), m),
        Err(p) => ctx.panic(api, &p, m),
    }
    if asyncm {
        ctx.count("async_streams");
    }
}

fn next_chunk(s: &mut Sched, left: usize) -> usize {
    let n = match s {
        Sched::Full => left,
        Sched::Fixed(n) => *n,
        Sched::List(v, i) => {
            if *i < v.len() {
                *i += 1;
                v[*i - 1]
            } else {
                left
            }
        }
        Sched::Random(r, m) => r.usize(1, *m),
        Sched::Page(p) => *p,
    };
    n.clamp(1, left.max(1)).min(left.max(1))
}

fn unknown(ctx: &mut Ctx) {
    let x = b"some data".to_vec();
    let m = json!({"compression": "unknown"});
    macro_rules! must_err {
        ($api:expr, $e:expr) => {
            match guard(|| $e) {
                Ok(true) => ctx.count("unknown_refused"),
                Ok(false) => ctx.violation($api, "accepts-unknown", "the 'unknown' compression is not refused", "Ok returned", m.clone()),
                Err(p) => ctx.panic($api, &p, m.clone()),
            }
        };
    }
    must_err!("util::compress_all", compress_all(Compression::Unknown, &x).is_err());
    must_err!("util::compress_all", compress_all(Compression::Unknown, &[]).is_err());
    must_err!("util::decompress_all", decompress_all(Compression::Unknown, &x).is_err());
    must_err!("util::decompress_all", decompress_all(Compression::Unknown, &[]).is_err());
    // 'unknown' stays an error whatever the payload looks like: real streams of every codec, bare magic numbers
    let mut looks_compressed: Vec<Vec<u8>> = vec![vec![0x1f, 0x8b, 0x08], vec![0x28, 0xb5, 0x2f, 0xfd], vec![0x1f, 0x8b], b"{}".to_vec()];
    for codec in [R::C_GZIP, R::C_BROTLI, R::C_ZSTD] {
        if let Ok(z) = R::codec_compress(codec, b"payload payload payload payload", &CodecParams::plain()) {
            looks_compressed.push(z);
        }
    }
    for p in &looks_compressed {
        must_err!("util::decompress_all", decompress_all(Compression::Unknown, p).is_err());
        must_err!("util::compress_all", compress_all(Compression::Unknown, p).is_err());
        must_err!("util::decompress", {
            let mut c = std::io::Cursor::new(p.clone());
            let r = decompress(Compression::Unknown, &mut c).is_err();
            r
        });
        must_err!("util::decompress_async", {
            let mut c = futures::io::Cursor::new(p.clone());
            let r = decompress_async(Compression::Unknown, &mut c).is_err();
            r
        });
    }
    must_err!("util::compress", {
        let mut o = Vec::new();
        let r = compress(Compression::Unknown, &mut o).is_err();
        r
    });
    must_err!("util::decompress", {
        let mut c = std::io::Cursor::new(x.clone());
        let r = decompress(Compression::Unknown, &mut c).is_err();
        r
    });
    must_err!("util::compress_async", {
        let mut o = futures::io::Cursor::new(Vec::new());
        let r = compress_async(Compression::Unknown, &mut o).is_err();
        r
    });
    must_err!("util::decompress_async", {
        let mut c = futures::io::Cursor::new(x.clone());
        let r = decompress_async(Compression::Unknown, &mut c).is_err();
        r
    });
}

pub fn run(ctx: &mut Ctx) {
    let py_dir = std::path::Path::new(&ctx.out).parent().map(|p| p.join("py"));
    if let Some(d) = &py_dir {
        let _ = std::fs::create_dir_all(d);
    }
    let mut py_left = ctx.n(3, 12);
    let mut case = 0u64;
    let max = ctx.n(2 << 20, 24 << 20) as usize;
    // ---- payload classes x codecs: one-shot + a set of streaming schedules
    for i in 0..ctx.n(180, 9000) {
        if ctx.mine(case) {
            ctx.begin(case);
            let mut rng = ctx.rng("c14", i);
            let (name, x) = payload(&mut rng, i, if i % 40 == 7 || i % 40 == 8 { max } else { max / 8 });
            for codec in R::CODECS {
                // brotli at quality 11 is slow: large payloads for it only on a few cases
                if codec == R::C_BROTLI && x.len() > 300_000 && i % 5 != 0 {
                    continue;
                }
                one_shot(ctx, &name, &x, codec, &mut rng, py_dir.as_deref(), &mut py_left);
                if codec != R::C_BROTLI || x.len() <= 100_000 {
                    siblings(ctx, &name, &x, codec, &mut rng);
                }
                let big = x.len() > 200_000;
                let mut modes: Vec<(Sched, Sched)> = vec![
                    (Sched::Fixed(65_536), Sched::Full),
                    (Sched::Fixed(4096), Sched::Fixed(1000)),
                    (Sched::Random(Rng::new(rng.next()), 5000), Sched::Random(Rng::new(rng.next()), 300)),
                ];
                if !big {
                    modes.push((Sched::Fixed(1), Sched::Full));
                    modes.push((Sched::Fixed(2), Sched::Fixed(1)));
                    modes.push((Sched::Fixed(3), Sched::Fixed(7)));
                    modes.push((Sched::Fixed(7), Sched::Fixed(64)));
                    modes.push((Sched::Fixed(64), Sched::Fixed(3)));
                }
                if codec == R::C_BROTLI && x.len() > 50_000 {
                    modes.truncate(2);
                }
                for (k, (chunks, under)) in modes.into_iter().enumerate() {
                    streamed(ctx, &name, &x, codec, &chunks, &under, (k + i as usize) % 2 == 1, &mut rng);
                }
            }
            ctx.case(hash_bytes(&x) ^ i, x.len() >= 2);
            ctx.max("payload_bytes", x.len() as u64);
            ctx.count(&format!("payload.{}", name.split(' ').next().unwrap_or("?")));
            if ctx.want_sample() {
                ctx.sample(json!({"payload": name, "len": x.len(), "codecs": "none,gzip,brotli,zstd", "modes": "one-shot, foreign stream, streamed (chunks x underlying fragmentation) sync+async"}));
            }
            ctx.end(case);
        }
        case += 1;
    }
    // ---- payloads that look like compressed streams themselves
    if ctx.mine(case) {
        ctx.begin(case);
        let mut rng = ctx.rng("c14.nested", 0);
        for (name, x) in nested_payloads(&mut rng) {
            for codec in R::CODECS {
                one_shot(ctx, &name, &x, codec, &mut rng, None, &mut 0);
                streamed(ctx, &name, &x, codec, &Sched::Fixed(7), &Sched::Fixed(3), false, &mut rng);
                streamed(ctx, &name, &x, codec, &Sched::Fixed(64), &Sched::Full, true, &mut rng);
            }
            ctx.case(hash_bytes(&x) ^ 0x4e, true);
            ctx.count("payload.nested");
        }
        ctx.end(case);
    }
    case += 1;
    // ---- payloads beyond typical internal thresholds (4 MiB, 8 MiB): one-shot helpers + one streamed mode
    for (k, n) in [(4usize << 20) + 1, 8 << 20, (9 << 20) + 17, (16 << 20) + 3].iter().enumerate() {
        if k == 3 && ctx.quick() {
            case += 1;
            continue;
        }
        if ctx.mine(case) {
            ctx.begin(case);
            let mut rng = ctx.rng("c14.big", k as u64);
            // half repetitive, half random: compressible but not trivially so
            let mut x = rng.bytes(n / 64);
            while x.len() < n / 2 {
                let l = x.len().min(n / 2 - x.len());
                x.extend_from_within(..l);
            }
            let tail = rng.bytes(n - x.len());
            x.extend_from_slice(&tail);
            for codec in [R::C_NONE, R::C_GZIP, R::C_ZSTD] {
                one_shot(ctx, "multi-megabyte", &x, codec, &mut rng, None, &mut 0);
                streamed(ctx, "multi-megabyte", &x, codec, &Sched::Fixed(1 << 20), &Sched::Fixed(65_536), k % 2 == 1, &mut rng);
            }
            ctx.case(hash_bytes(&x), true);
            ctx.max("payload_bytes", x.len() as u64);
            ctx.count("payload.multi_megabyte");
            ctx.end(case);
        }
        case += 1;
    }
    // ---- extreme compression ratios above 16 MiB of output (far beyond 1000:1)
    for (k, n) in [(17usize << 20) + 5, (33 << 20) + 1].iter().enumerate() {
        if k == 1 && ctx.quick() {
            case += 1;
            continue;
        }
        if ctx.mine(case) {
            ctx.begin(case);
            let mut rng = ctx.rng("c14.ratio", k as u64);
            let x: Vec<u8> = if k == 0 { vec![0u8; *n] } else { b"tile".iter().copied().cycle().take(*n).collect() };
            for codec in R::CODECS {
                one_shot(ctx, "extreme ratio", &x, codec, &mut rng, None, &mut 0);
            }
            streamed(ctx, "extreme ratio", &x, R::C_ZSTD, &Sched::Fixed(1 << 20), &Sched::Fixed(65_536), false, &mut rng);
            ctx.case(hash_bytes(&x[..1000]) ^ *n as u64, true);
            ctx.max("payload_bytes", x.len() as u64);
            ctx.count("payload.extreme_ratio");
            ctx.end(case);
        }
        case += 1;
    }
    // ---- every composition of the write chunks for |x| <= 12
    for n in 1..=12usize {
        if ctx.mine(case) {
            ctx.begin(case);
            let mut rng = ctx.rng("c14.comp", n as u64);
            let x = rng.bytes(n);
            let total = 1u64 << (n - 1);
            for k in 0..total {
                let mut parts = Vec::new();
                let mut cur = 1usize;
                for b in 0..n - 1 {
                    if k >> b & 1 == 1 {
                        parts.push(cur);
                        cur = 1;
                    } else {
                        cur += 1;
                    }
                }
                parts.push(cur);
                let codec = R::CODECS[(k % 4) as usize];
                if codec == R::C_BROTLI && k % 16 != 2 {
                    continue;
                }
                streamed(ctx, "all compositions", &x, codec, &Sched::List(parts, 0), &Sched::Fixed(1 + (k % 3) as usize), k % 2 == 0, &mut rng);
                ctx.count("compositions");
            }
            ctx.enumerated(total, total);
            ctx.end(case);
        }
        case += 1;
    }
    if ctx.mine(case) {
        ctx.begin(case);
        unknown(ctx);
        ctx.end(case);
    }
}
