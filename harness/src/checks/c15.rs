//! C15 — I/O failures surface as errors, never as success or a crash.
//! Fail-stop fault enumeration: for every scenario the fault-free run has N stream operations;
//! for every k < N the run in which operation k and all later ones fail is executed.

use crate::checks::common::{settings_of, write_sync};
use crate::gen::{self, Logical};
use crate::io::{AInst, Inst, OpKind, Pend};
use crate::obs::{guard, Ctx, PanicInfo};
use crate::refimpl::{self as R, REntry};
use crate::rng::{hash_bytes, hash_u64s, Rng};
use futures::executor::block_on;
use pmtiles2::{util, Directory, Header, PMTiles};
use serde_json::{json, Map, Value};
use std::collections::BTreeMap;
use std::rc::Rc;

pub struct Out {
    /// Ok(fingerprint of the returned value) or Err(message)
    pub res: Result<u64, String>,
    /// stream image after the call (writers)
    pub image: Option<Vec<u8>>,
    pub nops: u64,
    pub fault_kind: Option<OpKind>,
    pub faults_hit: u64,
    pub panic: Option<PanicInfo>,
}

pub struct Scenario {
    pub name: String,
    pub writer: bool,
    pub run: Box<dyn Fn(Option<u64>) -> Out>,
}

fn finish_sync<T>(r: Result<std::io::Result<T>, PanicInfo>, fp: impl Fn(&T) -> u64, s: &Inst, writer: bool) -> Out {
    let (res, panic) = match r {
        Ok(Ok(v)) => (Ok(fp(&v)), None),
        Ok(Err(e)) => (Err(e.to_string()), None),
        Err(p) => (Err(String::from("panic")), Some(p)),
    };
    Out {
        res,
        image: if writer { Some(s.c.data.clone()) } else { None },
        nops: s.c.nops,
        fault_kind: s.c.first_fault_kind,
        faults_hit: s.c.faults_hit,
        panic,
    }
}

fn finish_async<T>(r: Result<std::io::Result<T>, PanicInfo>, fp: impl Fn(&T) -> u64, s: &AInst, writer: bool) -> Out {
    let (res, panic) = match r {
        Ok(Ok(v)) => (Ok(fp(&v)), None),
        Ok(Err(e)) => (Err(e.to_string()), None),
        Err(p) => (Err(String::from("panic")), Some(p)),
    };
    Out {
        res,
        image: if writer { Some(s.c.data.clone()) } else { None },
        nops: s.c.nops,
        fault_kind: s.c.first_fault_kind,
        faults_hit: s.c.faults_hit,
        panic,
    }
}

fn pm_fp<T>(pm: &PMTiles<T>) -> u64 {
    let s = settings_of(pm);
    let mut ids: Vec<u64> = pm.tile_ids().into_iter().copied().collect();
    ids.sort_unstable();
    let mut v = vec![
        u64::from(s.tile_type),
        u64::from(s.tile_compression),
        u64::from(s.internal_compression),
        u64::from(s.zooms[0]) << 16 | u64::from(s.zooms[1]) << 8 | u64::from(s.zooms[2]),
        hash_bytes(serde_json::to_string(&pm.meta_data).unwrap_or_default().as_bytes()),
        pm.num_tiles() as u64,
    ];
    v.extend(s.coords.iter().map(|c| c.to_bits()));
    v.extend(ids);
    hash_u64s(&v)
}

fn aset(a: &mut AInst, k: Option<u64>, alt: bool) {
    a.c.fail_from = k;
    a.pend = if alt { Pend::Alternate } else { Pend::Never };
}

/// Small logical archive (no leaves) and a leaf-spilling one per codec.
pub fn small_logical(rng: &mut Rng, codec: u8) -> Logical {
    let mut l = gen::gen_logical(rng, gen::SizeClass::Small, codec);
    l.meta = gen::json_object(rng, 3, 5);
    // never empty: a swallowed metadata read error must be distinguishable from the real metadata
    l.meta.insert(String::from("name"), Value::String(String::from("fault injection")));
    l.meta.insert(String::from("vector_layers"), Value::Array(vec![Value::String(String::from("water"))]));
    l.tile_type = (rng.below(6)) as u8;
    // tiles whose ids have no z/x/y coordinates (beyond zoom 31)
    let c = Rc::new(rng.bytes(23));
    l.tiles.insert(gen::id_domain() + 5, c.clone());
    l.tiles.insert(u64::MAX - 9, c);
    l
}

pub fn spill_logical(rng: &mut Rng, codec: u8, n: usize) -> Logical {
    let mut tiles = BTreeMap::new();
    let mut id = rng.below(1000);
    for _ in 0..n {
        let len = rng.usize(128, 300);
        tiles.insert(id, Rc::new(rng.bytes(len)));
        id += rng.range(1 << 28, 1 << 34);
    }
    let mut meta = Map::new();
    meta.insert(String::from("name"), Value::String(String::from("spill")));
    Logical {
        tiles,
        meta,
        tile_type: 1,
        tile_compression: 1,
        internal_compression: codec,
        min_zoom: 0,
        max_zoom: 20,
        center_zoom: 3,
        coords: [-10.0, -20.0, 30.0, 40.0, 1.5, 2.5],
        class: format!("spill{n}"),
    }
}

fn cycle_tile_type(l: &mut Logical, k: usize) {
    l.tile_type = (k % 6) as u8;
}

fn entries_for(rng: &mut Rng, n: usize) -> Vec<REntry> {
    let mut v = Vec::with_capacity(n);
    let mut id = rng.below(100);
    let mut off = 0u64;
    for _ in 0..n {
        let len = rng.range(128, 16000) as u32;
        v.push(REntry {
            tile_id: id,
            offset: off,
            length: len,
            run_length: 1,
        });
        off += u64::from(len);
        id += rng.range(1 << 28, 1 << 34);
    }
    v
}

pub fn scenarios(ctx: &Ctx, rng: &mut Rng) -> Vec<Scenario> {
    let mut v: Vec<Scenario> = Vec::new();
    let quick = ctx.quick();
    for codec in R::CODECS {
        let cn = R::codec_name(codec);
        let comp = gen::comp(codec);
        let mut logicals: Vec<(String, Rc<Logical>)> = vec![(String::from("small"), Rc::new(small_logical(rng, codec)))];
        let spill_n = if codec == R::C_NONE { 2200 } else { 6000 };
        if codec != R::C_NONE || !quick {
            logicals.push((String::from("leaves"), Rc::new(spill_logical(rng, codec, spill_n))));
        } else {
            // quick tier: the None codec gets a leaf archive too, faults sampled (see run)
            logicals.push((String::from("leaves"), Rc::new(spill_logical(rng, codec, spill_n))));
        }
        for (li, (lname, l)) in logicals.into_iter().enumerate() {
            let l = {
                let mut m = l.as_ref().clone();
                cycle_tile_type(&mut m, li * 3 + codec as usize); // all tile types across the scenario set
                Rc::new(m)
            };
            let bytes = Rc::new(write_sync(l.build()).expect("fault-free write"));
            if lname == "leaves" {
                let h = R::header_unpack(&bytes).expect("header");
                assert!(h.leaf_length > 0, "spill scenario without leaves");
            }
            // ---- writers
            for asyncm in [false, true] {
                let l2 = l.clone();
                v.push(Scenario {
                    name: format!("PMTiles::{}/{cn}/{lname}", if asyncm { "to_async_writer" } else { "to_writer" }),
                    writer: true,
                    run: Box::new(move |k| {
                        if asyncm {
                            let pm = l2.build_async();
                            let mut s = AInst::new(Vec::new());
                            aset(&mut s, k, true);
                            let r = guard(|| block_on(pm.to_async_writer(&mut s)));
                            finish_async(r, |()| 1, &s, true)
                        } else {
                            let pm = l2.build();
                            let mut s = Inst::new(Vec::new());
                            s.c.fail_from = k;
                            let r = guard(|| pm.to_writer(&mut s));
                            finish_sync(r, |()| 1, &s, true)
                        }
                    }),
                });
            }
            // ---- writers of an OPENED archive (tiles still backed by the source reader; one tile added): faults in the
            // destination, and faults in the SOURCE reader while it is being copied from
            for (asyncm, source_faults) in [(false, false), (false, true), (true, false), (true, true)] {
                let b = bytes.clone();
                v.push(Scenario {
                    name: format!(
                        "PMTiles::{}/{cn}/{lname}/opened-archive/{}",
                        if asyncm { "to_async_writer" } else { "to_writer" },
                        if source_faults { "source-faults" } else { "destination-faults" }
                    ),
                    writer: true,
                    run: Box::new(move |k| {
                        if asyncm {
                            // source faults are positioned relative to the whole open + write sequence on the source
                            let mut src = AInst::new(b.as_ref().clone());
                            let mut dst = AInst::new(Vec::new());
                            aset(&mut src, if source_faults { k } else { None }, source_faults);
                            aset(&mut dst, if source_faults { None } else { k }, !source_faults);
                            let r = guard(|| {
                                block_on(async {
                                    let mut pm = PMTiles::from_async_reader(&mut src).await?;
                                    pm.add_tile(u64::from(u32::MAX) + 9, vec![4u8, 5, 6])?;
                                    pm.to_async_writer(&mut dst).await
                                })
                            });
                            if source_faults {
                                let mut o = finish_async(r, |()| 1, &src, false);
                                o.image = Some(dst.c.data.clone());
                                o
                            } else {
                                finish_async(r, |()| 1, &dst, true)
                            }
                        } else {
                            let mut src = Inst::new(b.as_ref().clone());
                            let mut dst = Inst::new(Vec::new());
                            if !source_faults {
                                dst.c.fail_from = k;
                            } else {
                                src.c.fail_from = k;
                            }
                            let r = guard(|| {
                                let mut pm = PMTiles::from_reader(&mut src)?;
                                pm.add_tile(u64::from(u32::MAX) + 9, vec![4u8, 5, 6])?;
                                pm.to_writer(&mut dst)
                            });
                            if source_faults {
                                let mut o = finish_sync(r, |()| 1, &src, false);
                                o.image = Some(dst.c.data.clone());
                                o
                            } else {
                                finish_sync(r, |()| 1, &dst, true)
                            }
                        }
                    }),
                });
            }
            // ---- readers: open
            for asyncm in [false, true] {
                let b = bytes.clone();
                v.push(Scenario {
                    name: format!("PMTiles::{}/{cn}/{lname}", if asyncm { "from_async_reader" } else { "from_reader" }),
                    writer: false,
                    run: Box::new(move |k| {
                        if asyncm {
                            let mut s = AInst::new(b.as_ref().clone());
                            aset(&mut s, k, true);
                            let r = guard(|| block_on(PMTiles::from_async_reader(&mut s)).map(|pm| pm_fp(&pm)));
                            finish_async(r, |v| *v, &s, false)
                        } else {
                            let mut s = Inst::new(b.as_ref().clone());
                            s.c.fail_from = k;
                            let r = guard(|| PMTiles::from_reader(&mut s).map(|pm| pm_fp(&pm)));
                            finish_sync(r, |v| *v, &s, false)
                        }
                    }),
                });
            }
            // ---- readers: open through a stream that returns short reads (a directory arrives in several transfers; faults hit
            // the tail transfers, e.g. those that carry only a codec's epilogue)
            for asyncm in [false, true] {
                let b = bytes.clone();
                let chunk = if lname == "small" { 3usize } else { 1000 };
                v.push(Scenario {
                    name: format!("PMTiles::{}/{cn}/{lname}/short-reads", if asyncm { "from_async_reader" } else { "from_reader" }),
                    writer: false,
                    run: Box::new(move |k| {
                        if asyncm {
                            let mut s = AInst::new(b.as_ref().clone());
                            aset(&mut s, k, false);
                            s.c.rsched = crate::io::Sched::Fixed(chunk);
                            let r = guard(|| block_on(PMTiles::from_async_reader(&mut s)).map(|pm| pm_fp(&pm)));
                            finish_async(r, |v| *v, &s, false)
                        } else {
                            let mut s = Inst::new(b.as_ref().clone());
                            s.c.fail_from = k;
                            s.c.rsched = crate::io::Sched::Fixed(chunk);
                            let r = guard(|| PMTiles::from_reader(&mut s).map(|pm| pm_fp(&pm)));
                            finish_sync(r, |v| *v, &s, false)
                        }
                    }),
                });
            }
            // ---- lookups on an archive opened fault-free (faults start after the open)
            for asyncm in [false, true] {
                let b = bytes.clone();
                let mut ids: Vec<u64> = l.tiles.keys().copied().step_by((l.tiles.len() / 12).max(1)).collect();
                ids.extend(l.tiles.keys().rev().take(2)); // the highest ids (the small archives hold ids beyond zoom 31)
                // number of operations the open itself takes
                let open_ops = {
                    let mut s = Inst::new(b.as_ref().clone());
                    let _ = PMTiles::from_reader(&mut s).map(|pm| pm.num_tiles());
                    s.c.nops
                };
                let open_ops_async = {
                    let mut s = AInst::new(b.as_ref().clone());
                    let _ = block_on(PMTiles::from_async_reader(&mut s)).map(|pm| pm.num_tiles());
                    s.c.nops
                };
                v.push(Scenario {
                    name: format!("PMTiles::{}/{cn}/{lname}", if asyncm { "get_tile_by_id_async" } else { "get_tile_by_id" }),
                    writer: false,
                    run: Box::new(move |k| {
                        if asyncm {
                            let mut s = AInst::new(b.as_ref().clone());
                            aset(&mut s, k.map(|k| k + open_ops_async), true);
                            let ids = ids.clone();
                            let r = guard(|| {
                                block_on(async {
                                    let mut pm = PMTiles::from_async_reader(&mut s).await?;
                                    let mut h = Vec::new();
                                    for id in &ids {
                                        let t = pm.get_tile_by_id_async(*id).await?;
                                        h.push(t.map_or(0, |t| hash_bytes(&t)));
                                    }
                                    Ok(hash_u64s(&h))
                                })
                            });
                            let mut o = finish_async(r, |v| *v, &s, false);
                            o.nops = o.nops.saturating_sub(open_ops_async);
                            o
                        } else {
                            let mut s = Inst::new(b.as_ref().clone());
                            s.c.fail_from = k.map(|k| k + open_ops);
                            let ids = ids.clone();
                            let r = guard(|| {
                                let mut pm = PMTiles::from_reader(&mut s)?;
                                let mut h = Vec::new();
                                for id in &ids {
                                    let t = pm.get_tile_by_id(*id)?;
                                    h.push(t.map_or(0, |t| hash_bytes(&t)));
                                }
                                Ok(hash_u64s(&h))
                            });
                            let mut o = finish_sync(r, |v| *v, &s, false);
                            o.nops = o.nops.saturating_sub(open_ops);
                            o
                        }
                    }),
                });
            }
            // ---- lookup SEQUENCES that go on after a failure (same id retried, run-length neighbour,
            // deduplicated twin): once the stream fails, a later lookup may fail too, but if it reports
            // success the bytes must be the tile's bytes
            if lname == "small" {
                let mut dl = small_logical(rng, codec);
                dl.tiles.clear();
                let (ca, cb, cc) = (Rc::new(rng.bytes(40)), Rc::new(rng.bytes(40)), Rc::new(rng.bytes(17)));
                for (id, c) in [(0u64, &ca), (1, &ca), (2, &cb), (5, &ca), (9, &cc), (10, &cc)] {
                    dl.tiles.insert(id, c.clone());
                }
                let dbytes = Rc::new(write_sync(dl.build()).expect("fault-free write"));
                let truth: Rc<BTreeMap<u64, Vec<u8>>> = Rc::new(dl.tiles.iter().map(|(k, v)| (*k, v.as_ref().clone())).collect());
                let seq: [u64; 11] = [0, 1, 2, 1, 0, 5, 9, 10, 9, 77, 0];
                for asyncm in [false, true] {
                    let b = dbytes.clone();
                    let t = truth.clone();
                    let open_ops = {
                        let mut s = Inst::new(b.as_ref().clone());
                        let _ = PMTiles::from_reader(&mut s).map(|pm| pm.num_tiles());
                        s.c.nops
                    };
                    let open_ops_async = {
                        let mut s = AInst::new(b.as_ref().clone());
                        let _ = block_on(PMTiles::from_async_reader(&mut s)).map(|pm| pm.num_tiles());
                        s.c.nops
                    };
                    v.push(Scenario {
                        name: format!("PMTiles::{}/{cn}/retry-sequence", if asyncm { "get_tile_by_id_async" } else { "get_tile_by_id" }),
                        writer: false,
                        run: Box::new(move |k| {
                            // judge every call on its own: Ok(Some(wrong bytes)) / Ok(None) for a present id = success
                            // reported for a tile that was not transferred
                            let judge = |results: Vec<std::io::Result<Option<Vec<u8>>>>| -> std::io::Result<u64> {
                                let mut failed = false;
                                for (id, r) in seq.iter().zip(results.iter()) {
                                    match r {
                                        Ok(got) => {
                                            if got.as_ref() != t.get(id) {
                                                return Ok(0xBAD0_0000 + *id); // differs from the fault-free value
                                            }
                                        }
                                        Err(_) => failed = true,
                                    }
                                }
                                if failed {
                                    Err(std::io::Error::new(std::io::ErrorKind::Other, "some lookups failed"))
                                } else {
                                    Ok(0x600D)
                                }
                            };
                            if asyncm {
                                let mut s = AInst::new(b.as_ref().clone());
                                aset(&mut s, k.map(|k| k + open_ops_async), true);
                                let r = guard(|| {
                                    block_on(async {
                                        let mut pm = PMTiles::from_async_reader(&mut s).await?;
                                        let mut res = Vec::new();
                                        for id in seq {
                                            res.push(pm.get_tile_by_id_async(id).await);
                                        }
                                        judge(res)
                                    })
                                });
                                let mut o = finish_async(r, |v| *v, &s, false);
                                o.nops = o.nops.saturating_sub(open_ops_async);
                                o
                            } else {
                                let mut s = Inst::new(b.as_ref().clone());
                                s.c.fail_from = k.map(|k| k + open_ops);
                                let r = guard(|| {
                                    let mut pm = PMTiles::from_reader(&mut s)?;
                                    let mut res = Vec::new();
                                    for id in seq {
                                        res.push(pm.get_tile_by_id(id));
                                    }
                                    judge(res)
                                });
                                let mut o = finish_sync(r, |v| *v, &s, false);
                                o.nops = o.nops.saturating_sub(open_ops);
                                o
                            }
                        }),
                    });
                }
            }
            // ---- the archive writer behind a buffering stream (std / futures BufWriter): a failure of the
            // underlying stream reaches the library only at a flush or seek, possibly its very last operation
            for asyncm in [false, true] {
                let l2 = l.clone();
                let cap = if lname == "small" { 64usize } else { 8192 };
                v.push(Scenario {
                    name: format!("PMTiles::{}/{cn}/{lname}/buffered", if asyncm { "to_async_writer" } else { "to_writer" }),
                    writer: true,
                    run: Box::new(move |k| {
                        if asyncm {
                            let mut s = AInst::new(Vec::new());
                            aset(&mut s, k, false);
                            let pm = l2.build_async();
                            let r = {
                                let mut bw = futures::io::BufWriter::with_capacity(cap, &mut s);
                                guard(|| block_on(pm.to_async_writer(&mut bw)))
                            };
                            finish_async(r, |()| 1, &s, true)
                        } else {
                            let mut s = Inst::new(Vec::new());
                            s.c.fail_from = k;
                            let pm = l2.build();
                            let r = {
                                let mut bw = std::io::BufWriter::with_capacity(cap, &mut s);
                                let r = guard(|| pm.to_writer(&mut bw));
                                // hand the stream back without flushing: what the library left unwritten stays unwritten
                                let _ = bw.into_parts();
                                r
                            };
                            finish_sync(r, |()| 1, &s, true)
                        }
                    }),
                });
            }
            // ---- util::read_directories
            for asyncm in [false, true] {
                let b = bytes.clone();
                let h = R::header_unpack(&bytes).expect("header");
                v.push(Scenario {
                    name: format!("util::{}/{cn}/{lname}", if asyncm { "read_directories_async" } else { "read_directories" }),
                    writer: false,
                    run: Box::new(move |k| {
                        let fp = |m: &std::collections::HashMap<u64, util::OffsetLength, ahash::RandomState>| {
                            let mut e: Vec<u64> = m.iter().map(|(id, ol)| hash_u64s(&[*id, ol.offset, u64::from(ol.length)])).collect();
                            e.sort_unstable();
                            hash_u64s(&e)
                        };
                        if asyncm {
                            let mut s = AInst::new(b.as_ref().clone());
                            aset(&mut s, k, false);
                            let r = guard(|| {
                                block_on(util::read_directories_async(&mut s, comp, (h.root_offset, h.root_length), h.leaf_offset, ..))
                            });
                            finish_async(r, fp, &s, false)
                        } else {
                            let mut s = Inst::new(b.as_ref().clone());
                            s.c.fail_from = k;
                            let r = guard(|| util::read_directories(&mut s, comp, (h.root_offset, h.root_length), h.leaf_offset, ..));
                            finish_sync(r, fp, &s, false)
                        }
                    }),
                });
            }
        }
        // ---- Directory::to_writer / from_reader and util::write_directories
        let sizes: &[(usize, &str)] = if codec == R::C_NONE { &[(40, "dir40"), (1900, "dir1900-spill")] } else { &[(40, "dir40"), (3000, "dir3000-spill")] };
        for (n, dname) in sizes {
            let entries = Rc::new(entries_for(rng, *n));
            let lib_entries = Rc::new(gen::to_lib_entries(&entries));
            let dir_bytes = Rc::new(R::codec_compress(codec, &R::dir_encode(&entries), &R::CodecParams::plain()).expect("codec"));
            for asyncm in [false, true] {
                let le = lib_entries.clone();
                v.push(Scenario {
                    name: format!("Directory::{}/{cn}/{dname}", if asyncm { "to_async_writer" } else { "to_writer" }),
                    writer: true,
                    run: Box::new(move |k| {
                        let d = Directory::from(le.as_ref().clone());
                        if asyncm {
                            let mut s = AInst::new(Vec::new());
                            aset(&mut s, k, true);
                            let r = guard(|| block_on(d.to_async_writer(&mut s, comp)));
                            finish_async(r, |()| 1, &s, true)
                        } else {
                            let mut s = Inst::new(Vec::new());
                            s.c.fail_from = k;
                            let r = guard(|| d.to_writer(&mut s, comp));
                            finish_sync(r, |()| 1, &s, true)
                        }
                    }),
                });
                let db = dir_bytes.clone();
                v.push(Scenario {
                    name: format!("Directory::{}/{cn}/{dname}", if asyncm { "from_async_reader" } else { "from_reader" }),
                    writer: false,
                    run: Box::new(move |k| {
                        let fp = |d: &Directory| gen::entries_fp(&gen::from_lib_entries(d));
                        let len = db.len() as u64;
                        if asyncm {
                            let mut s = AInst::new(db.as_ref().clone());
                            aset(&mut s, k, true);
                            let r = guard(|| block_on(Directory::from_async_reader(&mut s, len, comp)));
                            finish_async(r, fp, &s, false)
                        } else {
                            let mut s = Inst::new(db.as_ref().clone());
                            s.c.fail_from = k;
                            let r = guard(|| Directory::from_reader(&mut s, len, comp));
                            finish_sync(r, fp, &s, false)
                        }
                    }),
                });
                let le = lib_entries.clone();
                v.push(Scenario {
                    name: format!("util::{}/{cn}/{dname}", if asyncm { "write_directories_async" } else { "write_directories" }),
                    writer: true,
                    run: Box::new(move |k| {
                        // the returned leaf section is part of what was "transferred": fold it into the value
                        if asyncm {
                            let mut s = AInst::new(Vec::new());
                            aset(&mut s, k, false);
                            let r = guard(|| block_on(util::write_directories_async(&mut s, &le, comp, None)));
                            finish_async(r, |v| hash_bytes(v), &s, true)
                        } else {
                            let mut s = Inst::new(Vec::new());
                            s.c.fail_from = k;
                            let r = guard(|| util::write_directories(&mut s, &le, comp, None));
                            finish_sync(r, |v| hash_bytes(v), &s, true)
                        }
                    }),
                });
            }
        }
    }
    // ---- Header::to_writer / from_reader
    let hdr = {
        let h = crate::checks::c09::rand_header(rng);
        let mut h = h;
        h.internal_compression = 2;
        Rc::new(R::header_pack(&h).to_vec())
    };
    for asyncm in [false, true] {
        let hb = hdr.clone();
        v.push(Scenario {
            name: format!("Header::{}", if asyncm { "to_async_writer" } else { "to_writer" }),
            writer: true,
            run: Box::new(move |k| {
                let h = Header::from_bytes(hb.as_ref()).expect("valid header");
                if asyncm {
                    let mut s = AInst::new(Vec::new());
                    aset(&mut s, k, true);
                    s.c.wsched = crate::io::Sched::Fixed(50);
                    let r = guard(|| block_on(h.to_async_writer(&mut s)));
                    finish_async(r, |()| 1, &s, true)
                } else {
                    let mut s = Inst::new(Vec::new());
                    s.c.fail_from = k;
                    s.c.wsched = crate::io::Sched::Fixed(50);
                    let r = guard(|| h.to_writer(&mut s));
                    finish_sync(r, |()| 1, &s, true)
                }
            }),
        });
        if asyncm {
            // the async header writer flushes before it returns: behind a buffering writer a failing stream must surface as Err
            let h3 = hdr.clone();
            v.push(Scenario {
                name: String::from("Header::to_async_writer/buffered"),
                writer: true,
                run: Box::new(move |k| {
                    let h = Header::from_bytes(h3.as_ref()).expect("header");
                    let mut s = AInst::new(Vec::new());
                    aset(&mut s, k, false);
                    let r = {
                        let mut bw = futures::io::BufWriter::with_capacity(64, &mut s);
                        guard(|| block_on(h.to_async_writer(&mut bw)))
                    };
                    finish_async(r, |()| 1, &s, true)
                }),
            });
        }
        let hb = hdr.clone();
        v.push(Scenario {
            name: format!("Header::{}", if asyncm { "from_async_reader" } else { "from_reader" }),
            writer: false,
            run: Box::new(move |k| {
                let fp = |h: &Header| {
                    let mut o = Vec::new();
                    let _ = h.to_writer(&mut o);
                    hash_bytes(&o)
                };
                if asyncm {
                    let mut s = AInst::new(hb.as_ref().clone());
                    aset(&mut s, k, true);
                    s.c.rsched = crate::io::Sched::Fixed(50);
                    let r = guard(|| block_on(Header::from_async_reader(&mut s)));
                    finish_async(r, fp, &s, false)
                } else {
                    let mut s = Inst::new(hb.as_ref().clone());
                    s.c.fail_from = k;
                    s.c.rsched = crate::io::Sched::Fixed(50);
                    let r = guard(|| Header::from_reader(&mut s));
                    finish_sync(r, fp, &s, false)
                }
            }),
        });
    }
    v
}

pub fn run(ctx: &mut Ctx) {
    let mut case = 0u64;
    let mut table: Vec<Value> = Vec::new();
    // thorough: several independently generated scenario sets (different archives, entry lists, headers)
    for round in 0..ctx.n(1, 10) {
    let mut rng = ctx.rng("c15.scenarios", round);
    let scen = scenarios(ctx, &mut rng);
    let exhaustive_limit: u64 = ctx.n(3_000, 200_000);
    for sc in &scen {
        // the fault-free run defines N and the reference value / image
        let base = (sc.run)(None);
        let n = base.nops;
        let base_ok = base.res.is_ok() && base.panic.is_none();
        if !base_ok {
            if let Some(p) = &base.panic {
                ctx.panic(&sc.name, p, json!({"scenario": sc.name, "fault": "none"}));
            } else {
                ctx.inconclusive(&format!("scenario {}: fault-free run failed: {:?}", sc.name, base.res));
            }
            continue;
        }
        if n == 0 {
            ctx.inconclusive(&format!("scenario {}: no stream operations", sc.name));
            continue;
        }
        // which k to run: all of them when N is small, else a stride + both ends (reported)
        let stride = if n <= exhaustive_limit { 1 } else { n.div_ceil(exhaustive_limit) };
        let block = 64u64;
        let nblocks = n.div_ceil(block);
        let mut hist: BTreeMap<String, u64> = BTreeMap::new();
        for blk in 0..nblocks {
            if ctx.mine(case) {
                ctx.begin(case);
                for k in blk * block..((blk + 1) * block).min(n) {
                    if stride > 1 && k % stride != 0 && k >= 300 && k + 300 < n {
                        continue;
                    }
                    // error kind of the injected fault: rotates with k; at the first operations every kind is tried
                    let salt = crate::rng::hash_bytes(sc.name.as_bytes()) % 1000;
                    let variants = if k < 2 { crate::io::FAULT_KINDS.len() as u64 } else { 1 };
                    for v in 0..variants {
                    crate::io::FAULT_SALT.store(salt + v, std::sync::atomic::Ordering::Relaxed);
                    let ekind = format!("{:?}", crate::io::FAULT_KINDS[((k + salt + v) % crate::io::FAULT_KINDS.len() as u64) as usize]);
                    let o = (sc.run)(Some(k));
                    let kind = o.fault_kind.map_or("none", OpKind::name);
                    ctx.enumerated(1, 1);
                    ctx.count("faults_executed");
                    if o.faults_hit > 0 {
                        ctx.count("faults_reached");
                    } else {
                        ctx.count("faults_not_reached");
                    }
                    let mat = json!({"scenario": sc.name, "fail_from_op": k, "of_ops": n, "failing_op_kind": kind, "error_kind": ekind});
                    if let Some(p) = &o.panic {
                        ctx.panic(&sc.name, p, mat);
                        *hist.entry(format!("{kind}:panic")).or_insert(0) += 1;
                        continue;
                    }
                    match &o.res {
                        Err(_) => {
                            *hist.entry(format!("{kind}:err")).or_insert(0) += 1;
                            ctx.count("outcome.err");
                        }
                        Ok(v) => {
                            let complete = if sc.writer {
                                o.image == base.image && Ok(*v) == base.res
                            } else {
                                Ok(*v) == base.res
                            };
                            if complete && o.faults_hit > 0 {
                                // the value / image is complete, but an operation the call issued on the stream FAILED and the call
                                // says Ok all the same: "the call returns an error" is what the property demands
                                *hist.entry(format!("{kind}:ok-FAULT-SWALLOWED")).or_insert(0) += 1;
                                let api = sc.name.split('/').next().unwrap_or(&sc.name).to_string();
                                let codec = sc.name.split('/').nth(1).unwrap_or("-").to_string();
                                ctx.violation(
                                    &api,
                                    "fault-swallowed",
                                    &format!("success reported although a stream operation of the call failed ({codec}, failing {kind})"),
                                    &format!("{}: the stream fails from operation {k} of {n} (a {kind}); the call issued it, it failed, and the call returned Ok", sc.name),
                                    mat,
                                );
                            } else if complete {
                                *hist.entry(format!("{kind}:ok-complete")).or_insert(0) += 1;
                                ctx.count("outcome.ok_complete");
                            } else {
                                *hist.entry(format!("{kind}:ok-INCOMPLETE")).or_insert(0) += 1;
                                let api = sc.name.split('/').next().unwrap_or(&sc.name).to_string();
                                let codec = sc.name.split('/').nth(1).unwrap_or("-").to_string();
                                let (have, want) = (o.image.as_ref().map_or(0, Vec::len), base.image.as_ref().map_or(0, Vec::len));
                                ctx.violation(
                                    &api,
                                    "ok-despite-failure",
                                    &format!("success reported although the stream failed ({codec}, failing {kind})"),
                                    &format!(
                                        "{}: the stream fails from operation {k} of {n} (a {kind}) but the call returns Ok; {}",
                                        sc.name,
                                        if sc.writer {
                                            format!("the stream holds {have} bytes, the complete output has {want}")
                                        } else {
                                            String::from("the returned value differs from the fault-free one")
                                        }
                                    ),
                                    mat,
                                );
                            }
                        }
                    }
                    }
                }
                ctx.end(case);
            }
            case += 1;
        }
        if ctx.shard == 0 {
            ctx.count("scenarios");
            if stride == 1 {
                ctx.count("scenarios_exhaustive_in_k");
            }
        }
        table.push(json!({"scenario": sc.name, "N": n, "k_stride": stride, "outcomes_this_shard": hist}));
        if ctx.want_sample() {
            ctx.sample(json!({"scenario": sc.name, "fault_free_operations": n, "faults": format!("k = 0..{n} step {stride}")}));
        }
    }
    }
    if ctx.shard == 0 {
        table.truncate(160);
        ctx.extra("scenarios", json!(table));
    }
}
