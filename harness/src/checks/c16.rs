//! C16 — output bytes are a canonical function of the archive's logical content.

use crate::checks::arch::Arch;
use crate::checks::common::logical_for;
use crate::gen::Logical;
use crate::obs::{guard, Ctx};
use crate::refimpl as R;
use crate::rng::{hash_bytes, hash_u64s, Rng};
use serde_json::{json, Map, Value};

/// Build `l` along history `h` and serialise. Histories reach the same logical state.
fn build(l: &Logical, h: u32, asyncm: bool, rng: &mut Rng) -> Result<Vec<u8>, String> {
    let mut ids: Vec<u64> = l.tiles.keys().copied().collect();
    let mut arch = if asyncm { Arch::empty_async() } else { Arch::empty() };
    let e = |e: std::io::Error| e.to_string();
    match h {
        0 => {}
        1 => ids.reverse(),
        2 => rng.shuffle(&mut ids),
        3 => {
            // detours: junk first, replaced later; extra ids added then removed; duplicate adds
            rng.shuffle(&mut ids);
            let junk = vec![0xEE; 13];
            for id in ids.iter().step_by(3) {
                arch.add(*id, junk.clone()).map_err(e)?;
            }
            let extra: Vec<u64> = (0..5).map(|k| ids.last().copied().unwrap_or(0).wrapping_add(1000 + k)).filter(|x| !l.tiles.contains_key(x)).collect();
            for x in &extra {
                arch.add(*x, junk.clone()).map_err(e)?;
            }
            for id in &ids {
                arch.add(*id, l.tiles[id].as_ref().clone()).map_err(e)?;
            }
            for id in ids.iter().step_by(5) {
                arch.add(*id, l.tiles[id].as_ref().clone()).map_err(e)?; // duplicate add
            }
            for x in &extra {
                arch.remove(*x);
            }
            ids.clear();
        }
        4 | 5 => {
            // save + reopen midway: the first part becomes reader-backed
            rng.shuffle(&mut ids);
            let split = ids.len() / 2;
            for id in &ids[..split] {
                arch.add(*id, l.tiles[id].as_ref().clone()).map_err(e)?;
            }
            arch.set_codec(R::CODECS[rng.usize(0, 3)]);
            let b = arch.save().map_err(e)?;
            arch = if h == 5 || asyncm { Arch::open_async(b) } else { Arch::open_sync(b) }.map_err(e)?;
            // some of the reader-backed tiles are looked up before the rest is added (a lookup must leave no trace in the output)
            for id in ids[..split].iter().step_by(3).take(40) {
                let _ = arch.get(*id).map_err(e)?;
            }
            ids = ids[split..].to_vec();
        }
        8 => {
            // thousands of extra high-entropy tiles force leaf directories in the intermediate save; after the
            // removals the archive is small again and must not remember that
            for id in &ids {
                arch.add(*id, l.tiles[id].as_ref().clone()).map_err(e)?;
            }
            let last = ids.last().copied().unwrap_or(0);
            let mut extras: Vec<u64> = Vec::new();
            let mut x = last + 10;
            for k in 0..9000u64 {
                extras.push(x);
                let mut c = rng.bytes(rng.clone().usize(3, 40));
                c[0] = k as u8;
                arch.add(x, c).map_err(e)?;
                x += 1 + rng.log_range(1, 1 << 18);
            }
            arch.apply_settings(l);
            arch.set_codec(R::CODECS[rng.usize(0, 3)]);
            let b = arch.save().map_err(e)?;
            arch = if asyncm { Arch::open_async(b) } else { Arch::open_sync(b) }.map_err(e)?;
            for x in &extras {
                arch.remove(*x);
            }
            ids.clear();
        }
        6 | 7 => {
            // a superset is saved and reopened; the extra tiles (unique contents, ids interleaved with and
            // beyond the archive's) are then dropped by removals only (6) or by a range-filtered open (7)
            for id in &ids {
                arch.add(*id, l.tiles[id].as_ref().clone()).map_err(e)?;
            }
            let last = ids.last().copied().unwrap_or(0);
            let mut extras: Vec<u64> = Vec::new();
            if h == 6 {
                for w in ids.windows(2).step_by(3).take(20) {
                    if w[1] - w[0] > 1 {
                        extras.push(w[0] + 1);
                    }
                }
            }
            extras.extend([last + 2, last + 5]);
            for (k, x) in extras.iter().enumerate() {
                let mut c = vec![0xD0u8; 7 + k % 5];
                c[0] = k as u8;
                arch.add(*x, c).map_err(e)?;
            }
            arch.set_codec(R::CODECS[rng.usize(0, 3)]);
            arch.apply_settings(l);
            arch.set_codec(R::CODECS[rng.usize(0, 3)]);
            let b = arch.save().map_err(e)?;
            if h == 6 {
                arch = if asyncm { Arch::open_async(b) } else { Arch::open_sync(b) }.map_err(e)?;
                for x in &extras {
                    arch.remove(*x);
                }
            } else {
                arch = Arch::open_sync_partially(b, last).map_err(e)?;
            }
            ids.clear();
        }
        _ => {}
    }
    if h == 4 && !ids.is_empty() && ids[0] % 2 == 0 {
        // the remaining tiles are added, and the archive is written, by ANOTHER thread than the one that built the first half
        arch.apply_settings(l);
        let items: Vec<(u64, Vec<u8>)> = ids.iter().map(|id| (*id, l.tiles[id].as_ref().clone())).collect();
        let handle = std::thread::spawn(move || -> Result<Vec<u8>, String> {
            let mut arch = arch;
            for (id, c) in items {
                arch.add(id, c).map_err(|e| e.to_string())?;
            }
            arch.save().map_err(|e| e.to_string())
        });
        return handle.join().map_err(|_| String::from("writer thread panicked"))?;
    }
    if h == 0 && ids.len() >= 4 && ids.len() % 3 == 0 {
        // the first half is added on this thread, the second half (and the save) by another one: nothing in memory yet was
        // written to a stream, so every content the halves share is an in-memory duplicate across the thread boundary
        let half = ids.len() / 2;
        for id in &ids[..half] {
            arch.add(*id, l.tiles[id].as_ref().clone()).map_err(e)?;
        }
        arch.apply_settings(l);
        let items: Vec<(u64, Vec<u8>)> = ids[half..].iter().map(|id| (*id, l.tiles[id].as_ref().clone())).collect();
        let handle = std::thread::spawn(move || -> Result<Vec<u8>, String> {
            let mut arch = arch;
            for (id, c) in items {
                arch.add(id, c).map_err(|e| e.to_string())?;
            }
            arch.save().map_err(|e| e.to_string())
        });
        return handle.join().map_err(|_| String::from("writer thread panicked"))?;
    }
    for id in &ids {
        arch.add(*id, l.tiles[id].as_ref().clone()).map_err(e)?;
    }
    arch.apply_settings(l);
    if h == 2 || h == 3 {
        // metadata assembled in another key order
        let mut keys: Vec<&String> = l.meta.keys().collect();
        rng.shuffle(&mut keys);
        let mut m = Map::new();
        for k in keys {
            m.insert(k.clone(), l.meta[k].clone());
        }
        arch.set_meta(m);
    }
    if h == 5 && !asyncm {
        // an async-reopened archive can only be written by the async writer; re-home it
        return arch.save().map_err(e);
    }
    if h == 1 {
        // written behind 20 000 bytes of other data: the archive's bytes must not depend on where in the stream it starts
        return arch.save_behind(20_000).map_err(e);
    }
    arch.save().map_err(e)
}

/// Unrelated use of the library in the same process and thread.
fn pollution(rng: &mut Rng) {
    use pmtiles2::util::{write_directories, WriteDirsOverflowStrategy};
    // directory writers with unusual initial leaf sizes, all codecs
    let list: Vec<pmtiles2::Entry> = (0..30_000u64)
        .map(|k| pmtiles2::Entry { tile_id: k * 3 + (k % 2), offset: k * 100 + rng.below(50), length: 1 + (rng.below(90) as u32), run_length: 1 })
        .collect();
    for (codec, start) in [(R::C_NONE, 1_000_000usize), (R::C_GZIP, 65_536), (R::C_ZSTD, 8191), (R::C_NONE, 7)] {
        let mut out = std::io::Cursor::new(Vec::new());
        let _ = guard(|| write_directories(&mut out, &list, crate::gen::comp(codec), Some(WriteDirsOverflowStrategy::OnlyLeafPointers { start_size: Some(start) })));
    }
    // an archive of another shape, written and opened
    let oc = R::CODECS[rng.usize(0, 3)];
    let other = crate::gen::gen_logical(rng, crate::gen::SizeClass::Medium, oc);
    if let Ok(Ok(b)) = guard(|| crate::checks::common::write_sync(other.build())) {
        let _ = guard(|| pmtiles2::PMTiles::from_bytes(b).map(|mut p| p.get_tile_by_id(0).map(|t| t.map(|v| v.len()))));
    }
    // failing calls
    crate::checks::common::failing_calls_before(rng, None);
    let _ = guard(|| pmtiles2::PMTiles::from_bytes(vec![0x50u8; 300]).map(|p| p.num_tiles()));
    let _ = guard(|| pmtiles2::util::decompress_all(pmtiles2::Compression::ZStd, &[1, 2, 3]).map(|v| v.len()));
    // id helpers with far-apart arguments
    let _ = guard(|| pmtiles2::util::zxy(R::zoom_base(20) + 5));
    let _ = guard(|| pmtiles2::util::zxy(3));
}

fn rewrite(b: &[u8], asyncm: bool) -> Result<Vec<u8>, String> {
    let a = if asyncm { Arch::open_async(b.to_vec()) } else { Arch::open_sync(b.to_vec()) }.map_err(|e| e.to_string())?;
    a.save().map_err(|e| e.to_string())
}

/// More than 2^17 distinct contents, a part of which recur later under non-adjacent ids (tables that are
/// bounded, re-seeded or evicted only show beyond such sizes).
pub fn many_contents(rng: &mut Rng, codec: u8, at_least: u64) -> Logical {
    let mut l = crate::gen::gen_logical(rng, crate::gen::SizeClass::One, codec);
    l.tiles.clear();
    let n = at_least + rng.below(4000);
    let mut pool: Vec<std::rc::Rc<Vec<u8>>> = Vec::with_capacity(n as usize);
    let mut id = rng.below(1000);
    for k in 0..n {
        let mut c = vec![0u8; 5 + (k % 3) as usize];
        c[..4].copy_from_slice(&(k as u32).to_le_bytes());
        let c = std::rc::Rc::new(c);
        pool.push(c.clone());
        l.tiles.insert(id, c);
        id += 1 + (k % 2);
    }
    for k in 0..25_000u64 {
        // recurrences far behind the first occurrence, never adjacent to it; a part of them recur contents that were
        // first seen late (beyond the 2^17-th / 2^18-th distinct content)
        let src = if k % 2 == 0 { (k * 5 + 3) % n } else { n - 1 - (k % 3000) };
        l.tiles.insert(id, pool[src as usize].clone());
        id += 2;
    }
    l.class = format!("{n} distinct contents with later recurrences");
    l
}

fn many_contents_case(ctx: &mut Ctx, case: u64) {
    let mut rng = ctx.rng("c16.many", case);
    let codec = [R::C_NONE, R::C_ZSTD][(case % 2) as usize];
    // beyond 2^17 and beyond 2^18 distinct contents
    let l = many_contents(&mut rng, codec, if case % 2 == 0 { 135_000 } else { 266_000 });
    let mat = l.describe();
    let mut outs: Vec<(&str, Vec<u8>)> = Vec::new();
    for (label, h, asyncm) in [("sorted / sync writer", 0u32, false), ("shuffled / sync writer", 2, false), ("sorted / sync writer, second time", 0, false)] {
        match guard(|| build(&l, h, asyncm, &mut rng)) {
            Ok(Ok(b)) => outs.push((label, b)),
            Ok(Err(e)) => {
                ctx.violation("PMTiles::to_writer", "error", "building or writing along a valid history failed", &format!("{label}: {e}"), mat.clone());
                return;
            }
            Err(p) => {
                ctx.panic("PMTiles::to_writer", &p, mat.clone());
                return;
            }
        }
    }
    ctx.case(hash_u64s(&[l.fingerprint(), 1617]), true);
    for o in &outs[1..] {
        if o.1 != outs[0].1 {
            let at = o.1.iter().zip(outs[0].1.iter()).position(|(a, b)| a != b).unwrap_or(o.1.len().min(outs[0].1.len()));
            ctx.violation(
                "PMTiles::to_writer",
                "history-dependent",
                "equal logical archives serialise differently (hundreds of thousands of distinct contents)",
                &format!("'{}' and '{}' give {} vs {} bytes, first difference at byte {at}", outs[0].0, o.0, outs[0].1.len(), o.1.len()),
                json!({"archive": mat, "histories": [outs[0].0, o.0]}),
            );
            return;
        }
    }
    match guard(|| rewrite(&outs[0].1, false)) {
        Ok(Ok(b2)) if b2 == outs[0].1 => ctx.count("rewrites_identical"),
        Ok(Ok(b2)) => ctx.violation("PMTiles::to_writer", "rewrite-differs", "writing an archive that was just read back changes the bytes (body)", &format!("{} vs {} bytes", outs[0].1.len(), b2.len()), mat.clone()),
        Ok(Err(e)) => ctx.violation("PMTiles::to_writer", "error", "re-writing a just-read archive failed", &e, mat.clone()),
        Err(p) => ctx.panic("PMTiles::to_writer", &p, mat.clone()),
    }
    ctx.count("archives_with_more_than_131072_distinct_contents");
}

/// Eight threads serialise the same logical archives at the same time (each thread builds its own objects from the
/// same seeds, along a different history); every output must equal the one computed alone on the main thread.
fn threads_case(ctx: &mut Ctx, case: u64) {
    let seed = ctx.rng("c16.threads", case).next();
    let one = |k: u64, hist: u32| -> Result<Result<u64, String>, crate::obs::PanicInfo> {
        let mut rng = Rng::new(seed ^ k.wrapping_mul(0x9E37_79B9_7F4A_7C15));
        let class = if k % 3 == 0 { crate::gen::SizeClass::Medium } else { crate::gen::SizeClass::Small };
        let l = crate::gen::gen_logical(&mut rng, class, R::CODECS[(k % 4) as usize]);
        let mut hr = Rng::new(seed ^ k ^ u64::from(hist));
        guard(|| build(&l, hist, false, &mut hr).map(|b| hash_bytes(&b)))
    };
    let n_arch = 8u64;
    let alone: Vec<_> = (0..n_arch).map(|k| one(k, 0)).collect();
    let handles: Vec<_> = (0..8u32)
        .map(|t| {
            std::thread::spawn(move || {
                let one = |k: u64, hist: u32| -> Result<Result<u64, String>, crate::obs::PanicInfo> {
                    let mut rng = Rng::new(seed ^ k.wrapping_mul(0x9E37_79B9_7F4A_7C15));
                    let class = if k % 3 == 0 { crate::gen::SizeClass::Medium } else { crate::gen::SizeClass::Small };
                    let l = crate::gen::gen_logical(&mut rng, class, R::CODECS[(k % 4) as usize]);
                    let mut hr = Rng::new(seed ^ k ^ u64::from(hist));
                    guard(|| build(&l, hist, false, &mut hr).map(|b| hash_bytes(&b)))
                };
                (0..n_arch).map(|k| one((k + u64::from(t)) % n_arch, [0u32, 1, 2, 3, 4][(t % 5) as usize])).map(|r| r.map_err(|p| p.msg)).collect::<Vec<_>>()
            })
        })
        .collect();
    for (t, h) in handles.into_iter().enumerate() {
        match h.join() {
            Err(_) => ctx.violation("PMTiles::to_writer", "thread-panic", "a thread serialising archives panicked", &format!("thread {t}"), json!({"thread": t})),
            Ok(v) => {
                for (j, r) in v.into_iter().enumerate() {
                    let k = (j as u64 + t as u64) % n_arch;
                    let want = match &alone[k as usize] {
                        Ok(Ok(h)) => *h,
                        _ => continue,
                    };
                    match r {
                        Ok(Ok(h)) if h == want => ctx.count("outputs_from_concurrent_threads_identical"),
                        Ok(Ok(_)) => ctx.violation(
                            "PMTiles::to_writer",
                            "thread-dependent",
                            "output bytes differ when other threads use the library at the same time",
                            &format!("archive {k} written by thread {t} differs from the same archive written alone"),
                            json!({"thread": t, "archive": k}),
                        ),
                        Ok(Err(e)) => ctx.violation("PMTiles::to_writer", "error", "building or writing along a valid history failed", &format!("thread {t}: {e}"), json!({"thread": t})),
                        Err(msg) => ctx.violation("PMTiles::to_writer", "thread-panic", "a thread serialising archives panicked", &msg, json!({"thread": t})),
                    }
                }
            }
        }
    }
    ctx.case(hash_u64s(&[seed, 1618]), true);
    ctx.count("concurrent_thread_rounds");
}

fn xproc(ctx: &mut Ctx) {
    // every process computes the same K outputs; the driver compares them across OS processes
    let k = ctx.n(48, 240);
    let mut fps: Vec<Value> = Vec::new();
    for i in 0..k {
        let l = logical_for(ctx, "c16.xproc", i);
        let mut rng = ctx.rng("c16.xproc.h", i);
        let r = guard(|| build(&l, 2, i % 4 == 3, &mut rng));
        match r {
            Ok(Ok(b)) => fps.push(json!(format!("{:016x}", hash_bytes(&b)))),
            _ => fps.push(json!("error")),
        }
        ctx.case(l.fingerprint() ^ ctx.shard, true);
    }
    {
        // one archive with more than 2^17 distinct contents
        let mut rng = ctx.rng("c16.xproc.many", 0);
        let l = many_contents(&mut rng, R::C_NONE, 135_000);
        match guard(|| build(&l, 2, false, &mut rng)) {
            Ok(Ok(b)) => fps.push(json!(format!("{:016x}", hash_bytes(&b)))),
            _ => fps.push(json!("error")),
        }
    }
    ctx.add("xproc_outputs", k + 1);
    let key = format!("xproc_{}", ctx.shard);
    ctx.extra(&key, json!({"pid": std::process::id(), "fps": fps}));
}

pub fn run(ctx: &mut Ctx) {
    if ctx.sub == "xproc" {
        xproc(ctx);
        return;
    }
    let n = ctx.n(320, 6000);
    for k in 0..ctx.n(2, 8) {
        let case = n + k;
        if ctx.mine(case) {
            ctx.begin(case);
            many_contents_case(ctx, case);
            ctx.end(case);
        }
    }
    for k in 0..ctx.n(4, 64) {
        let case = n + 100 + k;
        if ctx.mine(case) {
            ctx.begin(case);
            threads_case(ctx, case);
            ctx.end(case);
        }
    }
    for i in 0..n {
        if !ctx.mine(i) {
            continue;
        }
        ctx.begin(i);
        let l = logical_for(ctx, "c16", i);
        let mut rng = ctx.rng("c16.h", i);
        let mat = l.describe();
        let names = [
            "sorted",
            "reversed, written behind a 20 000-byte prefix",
            "shuffled+metadata key order",
            "detours (replace/remove/duplicate adds)",
            "save+reopen midway",
            "save+async-reopen midway",
            "superset saved, reopened, extras removed",
            "superset saved, range-filtered open",
            "leaf-spilling superset saved, reopened, shrunk by removals",
        ];
        let mut outs: Vec<(String, Vec<u8>)> = Vec::new();
        let mut failed = false;
        let pollute = (i / 4) % 32 == 3 || i % 16 == 5;
        for h in 0..9u32 {
            if h == 1 && pollute {
                // unrelated library calls between two builds of the same archive: nothing they leave behind in the process
                // (statics, thread-locals, caches) may show in later output
                pollution(&mut rng);
                ctx.count("archives_built_before_and_after_unrelated_calls");
            }
            for asyncm in [false, true] {
                if asyncm && !(h == 0 || h == 2 || h == 4 || h == 6) {
                    continue;
                }
                // the bulky history only for archives that are small themselves, on every 4th case
                if h == 8 && (i % 4 != 1 || l.tiles.len() > 3000) {
                    continue;
                }
                if h >= 6 && l.tiles.is_empty() {
                    continue;
                }
                if h == 5 && asyncm {
                    continue;
                }
                let label = format!("{} / {}", names[h as usize], if asyncm || h == 5 { "async writer" } else { "sync writer" });
                match guard(|| build(&l, h, asyncm, &mut rng)) {
                    Ok(Ok(b)) => outs.push((label, b)),
                    Ok(Err(e)) => {
                        ctx.violation("PMTiles::to_writer", "error", "building or writing along a valid history failed", &format!("{label}: {e}"), mat.clone());
                        failed = true;
                    }
                    Err(p) => {
                        ctx.panic("PMTiles::to_writer", &p, mat.clone());
                        failed = true;
                    }
                }
            }
        }
        ctx.case(hash_u64s(&[l.fingerprint(), 16]), l.tiles.len() >= 2);
        if failed || outs.is_empty() {
            ctx.end(i);
            continue;
        }
        // sync-written outputs agree; async-written outputs agree; without a codec both agree
        let is_async = |s: &str| s.ends_with("async writer");
        let none = l.internal_compression == R::C_NONE;
        for group_async in [false, true] {
            let group: Vec<&(String, Vec<u8>)> = outs.iter().filter(|(s, _)| none || is_async(s) == group_async).collect();
            if let Some(first) = group.first() {
                for o in &group[1..] {
                    if o.1 != first.1 {
                        let at = o.1.iter().zip(first.1.iter()).position(|(a, b)| a != b).unwrap_or(o.1.len().min(first.1.len()));
                        let sec = R::header_unpack(&first.1)
                            .map(|h| {
                                let a = at as u64;
                                if a < 127 {
                                    "header"
                                } else if a < h.root_offset + h.root_length {
                                    "root directory"
                                } else if a >= h.meta_offset && a < h.meta_offset + h.meta_length {
                                    "metadata"
                                } else if a >= h.leaf_offset && a < h.leaf_offset + h.leaf_length {
                                    "leaf directories"
                                } else {
                                    "tile data"
                                }
                            })
                            .unwrap_or("?");
                        ctx.violation(
                            "PMTiles::to_writer",
                            "history-dependent",
                            &format!("equal logical archives serialise differently ({sec})"),
                            &format!("histories '{}' and '{}' give {} vs {} bytes, first difference at byte {at} ({sec})", first.0, o.0, first.1.len(), o.1.len()),
                            json!({"archive": mat, "histories": [first.0, o.0]}),
                        );
                        break;
                    }
                }
                ctx.add("history_pairs_byte_identical", group.len().saturating_sub(1) as u64);
            }
            if none {
                break;
            }
        }
        // rewrite idempotence: writing an archive that was just read back reproduces the bytes
        for (label, b) in outs.iter().take(3) {
            let asyncm = is_async(label);
            match guard(|| rewrite(b, asyncm)) {
                Ok(Ok(b2)) if &b2 == b => ctx.count("rewrites_identical"),
                Ok(Ok(b2)) => {
                    let at = b2.iter().zip(b.iter()).position(|(a, c)| a != c).unwrap_or(b2.len().min(b.len()));
                    ctx.violation(
                        "PMTiles::to_writer",
                        "rewrite-differs",
                        &format!("writing an archive that was just read back changes the bytes ({})", if at < 127 { "header" } else { "body" }),
                        &format!("{label}: first difference at byte {at}; {} vs {} bytes", b.len(), b2.len()),
                        mat.clone(),
                    );
                }
                Ok(Err(e)) => ctx.violation("PMTiles::to_writer", "error", "re-writing a just-read archive failed", &e, mat.clone()),
                Err(p) => ctx.panic("PMTiles::to_writer", &p, mat.clone()),
            }
        }
        ctx.count("logical_archives");
        ctx.count(&format!("codec.{}", R::codec_name(l.internal_compression)));
        if R::header_unpack(&outs[0].1).map(|h| h.leaf_length > 0).unwrap_or(false) {
            ctx.count("archives_with_leaves");
        }
        if ctx.want_sample() {
            ctx.sample(json!({"archive": l.describe(), "histories": outs.iter().map(|(s, b)| json!([s, b.len()])).collect::<Vec<_>>()}));
        }
        ctx.end(i);
    }
}
