//! C17 — a torn write is never mistaken for a complete archive.
//! Record the operation log of a write into a fresh stream, replay every prefix k in [0, N] into a
//! fresh image and hand it to the library's own reader: Ok => image == complete archive.

use crate::checks::c15::spill_logical;
use crate::gen::{self, Logical, SizeClass};
use crate::io::{apply_op, AInst, Inst, OpKind, Pend};
use crate::obs::{guard, Ctx};
use crate::refimpl as R;
use crate::rng::hash_u64s;
use futures::executor::block_on;
use pmtiles2::PMTiles;
use serde_json::json;

fn scenario(ctx: &Ctx, i: u64) -> (Logical, bool) {
    let mut rng = ctx.rng("c17", i);
    let codec = R::CODECS[(i % 4) as usize];
    let asyncm = (i / 4) % 2 == 1;
    if i % 96 == 41 {
        // more than 16 MiB of tile data (writers that slice large sections)
        let mut l = gen::gen_logical(&mut rng, SizeClass::One, codec);
        l.tiles.clear();
        for k in 0..3u64 {
            l.tiles.insert(100 + k, std::rc::Rc::new(rng.bytes(7 * (1 << 20) + 13 * k as usize + 5)));
        }
        l.class = String::from("tile data > 2^24 bytes");
        return (l, asyncm);
    }
    if i % 24 == 13 {
        // uncompressed tiles full of zero bytes: long zero runs in the middle and at the very END of the tile data
        // (writers that skip over zero runs / create sparse files)
        let mut l = gen::gen_logical(&mut rng, SizeClass::One, codec);
        l.tiles.clear();
        l.tile_compression = 1;
        let mut mid = rng.bytes(300);
        mid.extend(vec![0u8; 9000]);
        mid.extend(rng.bytes(20));
        l.tiles.insert(7, std::rc::Rc::new(rng.bytes(100)));
        l.tiles.insert(8, std::rc::Rc::new(mid));
        let mut tail = rng.bytes(rng.clone().usize(1, 50));
        tail.extend(vec![0u8; *rng.pick(&[4096usize, 8192, 70_000])]);
        l.tiles.insert(20, std::rc::Rc::new(tail));
        l.class = String::from("zero runs in and at the end of the tile data");
        return (l, asyncm);
    }
    if i % 24 == 15 {
        // tiles whose ids lie beyond zoom 31, with contents of their own stored behind everything else
        let mut l = gen::gen_logical(&mut rng, SizeClass::Small, codec);
        let dom = gen::id_domain();
        for (k, id) in [dom, dom + 7, 1u64 << 63, u64::MAX - 11].into_iter().enumerate() {
            l.tiles.insert(id, std::rc::Rc::new(rng.bytes(20 + k * 13)));
        }
        l.class.push_str("/ids-beyond-zoom-31");
        return (l, asyncm);
    }
    let l = match (i / 8) % 6 {
        0 => gen::gen_logical(&mut rng, SizeClass::Empty, codec),
        1 => gen::gen_logical(&mut rng, SizeClass::One, codec),
        2 => spill_logical(&mut rng, codec, if codec == R::C_NONE { 2200 } else { 6000 }),
        3 => gen::gen_logical(&mut rng, SizeClass::Medium, codec),
        _ => gen::gen_logical(&mut rng, SizeClass::Small, codec),
    };
    (l, asyncm)
}

pub fn run(ctx: &mut Ctx) {
    let n = ctx.n(192, 40_000);
    for i in 0..n {
        if !ctx.mine(i) {
            continue;
        }
        ctx.begin(i);
        let (l, asyncm) = scenario(ctx, i);
        let api = if asyncm { "PMTiles::to_async_writer" } else { "PMTiles::to_writer" };
        // 0: built with add_tile; 1: an existing archive opened and written again unchanged; 2: opened, metadata
        // edited and one tile added, written again
        let mode = match i % 12 {
            7 => 1,
            10 => 2,
            _ => 0,
        };
        let written = ["built with add_tile", "opened from an archive, unchanged", "opened from an archive, then edited"][mode];
        let mat = json!({"archive": l.describe(), "writer": api, "object_written": written});
        let source: Vec<u8> = if mode > 0 { crate::checks::common::write_sync(l.build()).unwrap_or_default() } else { Vec::new() };
        if mode > 0 {
            ctx.count("scenarios_rewriting_an_opened_archive");
        }
        if i % 4 == 1 {
            // a sibling archive (same ids, sizes, settings and metadata, other tile bytes) written completely on this thread
            // right before, and a few failed writes: nothing of them may surface in a torn image of the next write
            let mut sib = l.clone();
            for c in sib.tiles.values_mut() {
                *c = std::rc::Rc::new(c.iter().map(|b| b ^ 0xA5).collect());
            }
            let _ = guard(|| crate::checks::common::write_sync(sib.build()));
            crate::checks::common::failing_calls_before(&mut ctx.rng("c17.before", i), None);
            ctx.count("writes_preceded_by_a_sibling_archive");
        }
        // record the write
        let (res, log, image) = if asyncm {
            let mut s = AInst::recording(Vec::new());
            s.c.keep_data = true;
            s.pend = Pend::Random(ctx.rng("c17.pend", i), 1, 4);
            let r = guard(|| {
                block_on(async {
                    if mode == 0 {
                        l.build_async().to_async_writer(&mut s).await
                    } else {
                        let mut pm = PMTiles::from_async_reader(futures::io::Cursor::new(source.clone())).await?;
                        if mode == 2 {
                            pm.meta_data.insert(String::from("edited"), serde_json::Value::Bool(true));
                            pm.add_tile(u64::from(u32::MAX) + 77, vec![1u8, 2, 3])?;
                        }
                        pm.to_async_writer(&mut s).await
                    }
                })
            });
            (r, s.c.log, s.c.data)
        } else {
            let mut s = Inst::recording(Vec::new());
            s.c.keep_data = true;
            let r = guard(|| {
                if mode == 0 {
                    l.build().to_writer(&mut s)
                } else {
                    let mut pm = PMTiles::from_bytes(source.clone())?;
                    if mode == 2 {
                        pm.meta_data.insert(String::from("edited"), serde_json::Value::Bool(true));
                        pm.add_tile(u64::from(u32::MAX) + 77, vec![1u8, 2, 3])?;
                    }
                    pm.to_writer(&mut s)
                }
            });
            (r, s.c.log, s.c.data)
        };
        match res {
            Ok(Ok(())) => {}
            Ok(Err(e)) => {
                ctx.violation(api, "error", "fault-free write failed", &e.to_string(), mat);
                ctx.end(i);
                continue;
            }
            Err(p) => {
                ctx.panic(api, &p, mat);
                ctx.end(i);
                continue;
            }
        }
        let nops = log.len();
        let spill = R::header_unpack(&image).map(|h| h.leaf_length > 0).unwrap_or(false);
        // control: the complete image opens
        if PMTiles::from_bytes(image.clone()).is_err() {
            ctx.violation("PMTiles::from_bytes", "complete-rejected", "the complete archive is rejected by the reader", "open of the complete output failed", mat.clone());
        }
        // position of the header write in the log
        let hdr_at = log.iter().rposition(|o| o.kind == OpKind::Write && o.pos == 0 && o.res == Some(127));
        if let Some(h) = hdr_at {
            ctx.max("ops_after_header_write", (nops - 1 - h) as u64);
            if log[h + 1..].iter().any(|o| o.kind == OpKind::Write && o.res.unwrap_or(0) > 0) {
                ctx.count("obs.writes_after_the_header_write");
            }
        } else {
            ctx.count("obs.header_not_one_write_of_127_bytes");
        }
        let mut img: Vec<u8> = Vec::new();
        let mut oks = 0u64;
        for k in 0..=nops {
            if k > 0 {
                apply_op(&mut img, &log[k - 1]);
            }
            // only write operations change the image; skip re-testing an unchanged image
            if k > 0 && log[k - 1].kind != OpKind::Write {
                ctx.enumerated(1, 0);
                continue;
            }
            ctx.enumerated(1, 1);
            ctx.count("crash_points_opened");
            match guard(|| PMTiles::from_bytes(img.clone()).map(|p| p.num_tiles())) {
                Err(p) => ctx.panic("PMTiles::from_bytes", &p, json!({"archive": l.describe(), "writer": api, "crash_after_ops": k, "of": nops})),
                Ok(Err(_)) => ctx.count("torn_images_rejected"),
                Ok(Ok(_)) => {
                    oks += 1;
                    if img != image {
                        ctx.violation(
                            api,
                            "torn-accepted",
                            "a torn write opens successfully",
                            &format!(
                                "the image after {k} of {nops} stream operations ({} bytes) opens without error but differs from the complete archive ({} bytes)",
                                img.len(),
                                image.len()
                            ),
                            json!({"archive": l.describe(), "writer": api, "crash_after_ops": k, "of": nops,
                                   "log_tail": log.iter().skip(k.saturating_sub(3)).take(6).map(|o| json!([o.kind.name(), o.pos, o.req])).collect::<Vec<_>>()}),
                        );
                    } else {
                        ctx.count("complete_images_accepted");
                    }
                }
            }
        }
        ctx.case(hash_u64s(&[l.fingerprint(), u64::from(asyncm), mode as u64]), nops >= 4);
        ctx.max("operations_in_one_write", nops as u64);
        ctx.add("opens_that_succeeded", oks);
        if spill {
            ctx.count("scenarios_with_leaf_spill");
        }
        if asyncm {
            ctx.count("async_scenarios");
        }
        ctx.count(&format!("codec.{}", R::codec_name(l.internal_compression)));
        if ctx.want_sample() {
            ctx.sample(json!({"archive": l.describe(), "writer": api, "N": nops, "header_write_at_op": hdr_at,
                              "log": log.iter().take(12).map(|o| json!([o.kind.name(), o.pos, o.req])).collect::<Vec<_>>()}));
        }
        ctx.end(i);
    }
}
