//! C18 — the archive writer honours the stream's starting position.

use crate::checks::common::{lookup_probes, verify_archive_bytes};
use crate::gen::{self, SizeClass};
use crate::io::{AInst, Inst, Pend, Sched};
use crate::obs::{guard, Ctx};
use crate::refimpl as R;
use crate::rng::hash_u64s;
use futures::executor::block_on;
use serde_json::json;

fn sentinel(i: usize) -> u8 {
    0xC0 ^ (i as u8).wrapping_mul(37) ^ ((i >> 8) as u8)
}

pub fn run(ctx: &mut Ctx) {
    let n = ctx.n(320, 30_000);
    for i in 0..n {
        if !ctx.mine(i) {
            continue;
        }
        ctx.begin(i);
        let mut rng = ctx.rng("c18", i);
        let codec = R::CODECS[(i % 4) as usize];
        let class = match i % 16 {
            0 | 1 => SizeClass::Empty,
            2 => SizeClass::One,
            3 if i % 32 == 3 || !ctx.quick() => SizeClass::Spill,
            4..=6 => SizeClass::Medium,
            _ => SizeClass::Small,
        };
        let l = if i % 160 == 39 {
            // more than 2^24 bytes of tile data behind a non-zero start position
            ctx.count("archives_above_16_mib");
            gen::gen_huge_tiles(&mut rng, codec, (1 << 24) + 4321)
        } else if i % 20 == 13 && (i / 20) % 2 == 0 {
            // a leaf-spilling archive for the start positions around 2^32
            gen::gen_logical(&mut rng, SizeClass::Spill, codec)
        } else {
            gen::gen_logical(&mut rng, class, codec)
        };
        let p: u64 = match if i % 160 == 39 { 6 + rng.below(3) } else { rng.below(9) } {
            0 => 0,
            1 => 1,
            2 => 10,
            3 => 127,
            4 => 128,
            5 => 4096,
            6 => rng.range(2, 300),
            7 => {
                // shortly before a multiple of 512 / 4096: the 127 header bytes straddle a block boundary
                let page = *rng.pick(&[512u64, 4096]);
                page * rng.range(1, 40) - rng.range(1, 126)
            }
            _ => rng.range(1, 1 << 20),
        };
        // start positions around and beyond 2^32 (leaf-spilling archives among them): a stream whose first `base` bytes are a
        // hole without storage; everything below is judged relative to `base`
        let far = i % 20 == 13;
        let (p, base): (u64, u64) = if far {
            let p = match rng.below(4) {
                0 => (1u64 << 32) - rng.range(1, 126), // the header straddles 2^32
                1 => (1u64 << 32) - 127,
                2 => (1u64 << 32) + rng.below(1 << 20),
                _ => (1u64 << 33) + rng.below(1 << 30),
            };
            (p, p - 1000)
        } else {
            (p, 0)
        };
        if far {
            ctx.count("start_positions_at_or_beyond_4_gib");
        }
        let p_abs = p;
        let p = p - base;
        // pre-fill: empty, shorter than P, exactly P, or long enough to exceed the archive
        let prefill_len: usize = match rng.below(5) {
            0 => 0,
            1 => (p / 2) as usize,
            2 => p as usize,
            3 => p as usize + rng.usize(1, 200),
            _ => p as usize + rng.usize(1 << 16, 1 << 22),
        };
        let prefill: Vec<u8> = (0..prefill_len).map(sentinel).collect();
        let asyncm = rng.chance(1, 2);
        let api = if asyncm { "PMTiles::to_async_writer" } else { "PMTiles::to_writer" };
        let mat = json!({"archive": l.describe(), "start_position": p_abs, "prefill_len": prefill_len, "api": api, "stream_hole_below": base});
        // a third of the streams accept only part of most writes (the property holds for every Write + Seek)
        let short_writes = i % 3 == 1 && l.tiles.values().map(|c| c.len()).sum::<usize>() < (4 << 20);
        let wsched = match rng.below(4) {
            0 => Sched::Random(crate::rng::Rng::new(rng.next()), 50),
            1 => Sched::Random(crate::rng::Rng::new(rng.next()), 3000),
            2 => Sched::Page(4096),
            _ => Sched::Page(512),
        };
        if short_writes {
            ctx.count("streams_with_short_writes");
        }
        let mut below_base = 0u64;
        let (res, data, pos) = if asyncm {
            let mut s = AInst::new(prefill.clone());
            s.c.base = base;
            s.c.max_len = u64::MAX >> 2;
            s.c.pos = p_abs;
            if short_writes {
                s.c.wsched = wsched.clone();
            }
            s.pend = Pend::Random(ctx.rng("c18.pend", i), 1, 4);
            let pm = l.build_async();
            let r = guard(|| block_on(pm.to_async_writer(&mut s)));
            below_base = s.c.below_base_writes;
            (r, s.c.data, s.c.pos.saturating_sub(base))
        } else {
            let mut s = Inst::new(prefill.clone());
            s.c.base = base;
            s.c.max_len = u64::MAX >> 2;
            s.c.pos = p_abs;
            if short_writes {
                s.c.wsched = wsched.clone();
            }
            let pm = l.build();
            let r = guard(|| pm.to_writer(&mut s));
            below_base = s.c.below_base_writes;
            (r, s.c.data, s.c.pos.saturating_sub(base))
        };
        let spill = class == SizeClass::Spill || l.class.starts_with("Spill");
        ctx.case(hash_u64s(&[l.fingerprint(), p, prefill_len as u64, u64::from(asyncm)]), p > 0);
        match res {
            Err(pn) => {
                ctx.panic(api, &pn, mat);
                ctx.end(i);
                continue;
            }
            Ok(Err(e)) => {
                ctx.violation(api, "error", "writing at a start position failed", &format!("write at position {p} failed: {e}"), mat);
                ctx.end(i);
                continue;
            }
            Ok(Ok(())) => {}
        }
        // (1) bytes before P untouched (zero fill where the stream was shorter than P)
        let before_ok = (0..p as usize).all(|j| {
            let want = if j < prefill_len { sentinel(j) } else { 0 };
            data.get(j).copied() == Some(want) || (j >= data.len() && j >= prefill_len)
        });
        if below_base > 0 {
            ctx.violation(api, "prefix-modified", "bytes before the start position were modified", &format!("writing at position {p_abs} wrote {below_base} bytes more than 1000 bytes before the start position"), mat.clone());
        }
        if !before_ok {
            let at = (0..p as usize).find(|j| data.get(*j).copied() != Some(if *j < prefill_len { sentinel(*j) } else { 0 })).unwrap_or(0);
            ctx.violation(
                api,
                "prefix-modified",
                "bytes before the start position were modified",
                &format!("writing at position {p} changed byte {at} of the stream (before the start position)"),
                mat.clone(),
            );
        }
        // (2) the bytes from P on are the archive that was written; (3) final position = its end
        if (data.len() as u64) < p {
            ctx.violation(api, "nothing-at-p", "no archive at the start position", &format!("stream has only {} bytes, start position {p}", data.len()), mat);
            ctx.end(i);
            continue;
        }
        let tail = &data[p as usize..];
        let end = pos.saturating_sub(p).min(tail.len() as u64) as usize;
        let probes = lookup_probes(&l, &mut rng, 30);
        // judge the archive as the bytes [P, final position); if that fails, say what the whole tail looks like
        match verify_archive_bytes(&tail[..end], &l, &probes) {
            Ok(v) => {
                let h = v.header;
                let arch_end = [
                    127,
                    h.root_offset + h.root_length,
                    h.meta_offset + h.meta_length,
                    h.leaf_offset + h.leaf_length,
                    h.data_offset + h.data_length,
                ]
                .into_iter()
                .max()
                .unwrap_or(127);
                if pos != p + arch_end {
                    ctx.violation(
                        api,
                        "final-position",
                        "stream is not left positioned at the archive's end",
                        &format!("start {p}, archive is {arch_end} bytes long, final position {pos}"),
                        mat.clone(),
                    );
                }
                // (4) nothing is left behind the archive's end: a stream that was not longer before ends there, and bytes of a
                // longer pre-filled stream that lie behind the archive are not the writer's business
                if pos == p + arch_end {
                    let end_abs = pos as usize;
                    if prefill_len <= end_abs && data.len() != end_abs {
                        ctx.violation(api, "beyond-end", "bytes were written behind the archive's end", &format!("start {p}, archive ends at {end_abs}, stream has {} bytes", data.len()), mat.clone());
                    } else if prefill_len > end_abs {
                        if let Some(at) = (end_abs..prefill_len.min(data.len())).find(|j| data[*j] != sentinel(*j)) {
                            ctx.violation(api, "beyond-end", "bytes behind the archive's end were modified", &format!("start {p}, archive ends at {end_abs}, byte {at} of the pre-filled stream changed"), mat.clone());
                        } else {
                            ctx.count("bytes_behind_the_archive_intact");
                        }
                    }
                }
                if h.leaf_length > 0 {
                    ctx.count("with_leaf_spill");
                } else if spill {
                    ctx.count("spill_class_without_leaves");
                }
                ctx.count(if p > 0 { "validated_at_nonzero_p" } else { "validated_at_zero_p" });
                if asyncm {
                    ctx.count("async_writes");
                }
            }
            Err(e) => {
                let whole = verify_archive_bytes(tail, &l, &[]).err();
                ctx.violation(
                    api,
                    "not-an-archive-at-p",
                    "bytes from the start position on are not the archive that was written",
                    &format!(
                        "start position {p}, final position {pos}: independent reader on stream[{p}..{pos}]: {e}{}",
                        whole.map_or(String::new(), |w| format!("; on stream[{p}..]: {w}"))
                    ),
                    mat.clone(),
                );
            }
        }
        if ctx.want_sample() {
            ctx.sample(mat);
        }
        ctx.end(i);
    }
    coincidence_phase(ctx, n);
}

/// Start positions that coincide with the archive's own geometry: the archive is first written at position 0, then again at
/// P = X + d for every section offset / length / end X of its header and d in {-127, -1, 0, 1, 127} (the header is 127 bytes:
/// P + 127 = X is where a comparison of an output-stream position with an archive-relative or buffer-relative quantity would
/// coincide). Leaf-spilling archives in all four codecs; the oracle is the one of the main loop (independent reader on
/// stream[P..final position], final position, prefix, nothing behind the end).
fn coincidence_phase(ctx: &mut Ctx, first_idx: u64) {
    let archives = ctx.n(8, 64);
    let deltas: [i64; 5] = [-127, -1, 0, 1, 127];
    for a in 0..archives {
        let idx = first_idx + a;
        if !ctx.mine(idx) {
            continue;
        }
        ctx.begin(idx);
        let mut rng = ctx.rng("c18.coincide", idx);
        let codec = R::CODECS[(a % 4) as usize];
        let class = if a % 4 == 3 && a % 8 != 3 { SizeClass::Medium } else { SizeClass::Spill };
        let l = gen::gen_logical(&mut rng, class, codec);
        let mut z = Inst::new(Vec::new());
        let base_ok = matches!(guard(|| l.build().to_writer(&mut z)), Ok(Ok(())));
        let h = match (base_ok, R::header_unpack(&z.c.data)) {
            (true, Ok(h)) => h,
            _ => {
                // the main loop reports failures at P = 0; nothing to derive positions from here
                ctx.count("coincidence_archives_without_baseline");
                ctx.end(idx);
                continue;
            }
        };
        let mut xs = vec![
            h.root_offset + h.root_length,
            h.meta_length,
            h.meta_offset + h.meta_length,
            h.leaf_offset,
            h.leaf_length,
            h.leaf_offset + h.leaf_length,
            h.data_length,
            h.data_offset + h.data_length,
            h.root_length,
        ];
        xs.sort_unstable();
        xs.dedup();
        let probes = lookup_probes(&l, &mut rng, 10);
        let mut k = 0u64;
        for x in xs {
            for d in deltas {
                let p = x as i64 + d;
                if p <= 0 || p > (1 << 26) {
                    continue;
                }
                let p = p as u64;
                k += 1;
                let asyncm = k % 2 == 0;
                let api = if asyncm { "PMTiles::to_async_writer" } else { "PMTiles::to_writer" };
                let mat = json!({"archive": l.describe(), "start_position": p, "prefill_len": 0, "api": api, "coincides_with": format!("{x}{d:+}")});
                let (res, data, pos) = if asyncm {
                    let mut s = AInst::new(Vec::new());
                    s.c.pos = p;
                    let pm = l.build_async();
                    let r = guard(|| block_on(pm.to_async_writer(&mut s)));
                    (r, s.c.data, s.c.pos)
                } else {
                    let mut s = Inst::new(Vec::new());
                    s.c.pos = p;
                    let pm = l.build();
                    let r = guard(|| pm.to_writer(&mut s));
                    (r, s.c.data, s.c.pos)
                };
                ctx.case(hash_u64s(&[l.fingerprint(), p, 0, u64::from(asyncm)]), true);
                ctx.count("start_positions_coinciding_with_section_geometry");
                match res {
                    Err(pn) => {
                        ctx.panic(api, &pn, mat);
                        continue;
                    }
                    Ok(Err(e)) => {
                        ctx.violation(api, "error", "writing at a start position failed", &format!("write at position {p} failed: {e}"), mat);
                        continue;
                    }
                    Ok(Ok(())) => {}
                }
                if (data.len() as u64) < p {
                    ctx.violation(api, "nothing-at-p", "no archive at the start position", &format!("stream has only {} bytes, start position {p}", data.len()), mat);
                    continue;
                }
                if let Some(at) = data[..p as usize].iter().position(|b| *b != 0) {
                    ctx.violation(api, "prefix-modified", "bytes before the start position were modified", &format!("writing at position {p} changed byte {at} of the stream (before the start position)"), mat.clone());
                }
                let tail = &data[p as usize..];
                let end = pos.saturating_sub(p).min(tail.len() as u64) as usize;
                match verify_archive_bytes(&tail[..end], &l, &probes) {
                    Ok(v) => {
                        let h = v.header;
                        let arch_end = [127, h.root_offset + h.root_length, h.meta_offset + h.meta_length, h.leaf_offset + h.leaf_length, h.data_offset + h.data_length]
                            .into_iter()
                            .max()
                            .unwrap_or(127);
                        if pos != p + arch_end {
                            ctx.violation(api, "final-position", "stream is not left positioned at the archive's end", &format!("start {p}, archive is {arch_end} bytes long, final position {pos}"), mat.clone());
                        } else if data.len() as u64 != pos {
                            ctx.violation(api, "beyond-end", "bytes were written behind the archive's end", &format!("start {p}, archive ends at {pos}, stream has {} bytes", data.len()), mat.clone());
                        }
                        if h.leaf_length > 0 {
                            ctx.count("coinciding_with_leaf_spill");
                        }
                    }
                    Err(e) => {
                        let whole = verify_archive_bytes(tail, &l, &[]).err();
                        ctx.violation(
                            api,
                            "not-an-archive-at-p",
                            "bytes from the start position on are not the archive that was written",
                            &format!(
                                "start position {p} (= {x}{d:+} of the archive's own geometry), final position {pos}: independent reader on stream[{p}..{pos}]: {e}{}",
                                whole.map_or(String::new(), |w| format!("; on stream[{p}..]: {w}"))
                            ),
                            mat.clone(),
                        );
                    }
                }
            }
        }
        ctx.end(idx);
    }
}
