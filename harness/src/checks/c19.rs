//! C19 — documented rejection contracts hold and leave the archive unchanged.

use crate::checks::arch::{check_store, Arch, Model};
use crate::checks::c04::{apply, compare_full, Op};
use crate::gen::{self, ForeignOpts};
use crate::io::{AInst, Pend};
use crate::obs::{guard, Ctx};
use crate::refimpl::{self as R, REntry};
use crate::rng::{hash_u64s, Rng};
use futures::executor::block_on;
use pmtiles2::{Compression, Directory, PMTiles, TileType};
use serde_json::json;

fn zero_len_dir(ctx: &mut Ctx, case: u64) {
    let mut rng = ctx.rng("c19.dir", case);
    let n = match case % 5 {
        // beyond what a root directory can hold without a codec (4065+ entries): the directory writers go straight to leaves
        _ if case % 20 == 8 || case % 20 == 13 => rng.usize(4065, 9000),
        0 => rng.usize(1, 3),
        1 | 2 => rng.usize(3, 60),
        3 => rng.usize(60, 600),
        _ => rng.usize(600, 2000),
    };
    let list = gen::gen_entries(&mut rng, n, true, false);
    let n = list.len();
    let codec = R::CODECS[(case % 4) as usize];
    let comp = gen::comp(codec);
    // every index for small directories, sampled for large ones
    let idxs: Vec<usize> = if n <= 80 { (0..n).collect() } else { (0..40).map(|_| rng.usize(0, n - 1)).chain([0, n - 1]).collect() };
    // second variant per index: the offending entry additionally shares its predecessor's offset (a back reference)
    let variants: Vec<(usize, bool)> = idxs.iter().flat_map(|at| if *at > 0 { vec![(*at, false), (*at, true)] } else { vec![(*at, false)] }).collect();
    for (at, share_offset) in variants {
        let mut bad = list.clone();
        bad[at].length = 0;
        if share_offset {
            bad[at].offset = bad[at - 1].offset;
        }
        let mat = json!({"entries": n, "zero_length_at": at, "offset_equals_predecessor": share_offset, "codec": R::codec_name(codec)});
        // serialiser
        let d = Directory::from(gen::to_lib_entries(&bad));
        let mut out = Vec::new();
        match guard(|| d.to_writer(&mut out, comp)) {
            Ok(Err(_)) => ctx.count("serialiser_rejections"),
            Ok(Ok(())) => ctx.violation("Directory::to_writer", "accepts-zero-length", "serialiser accepts an entry of length 0", &format!("entry {at} of {n} has length 0 but to_writer returned Ok"), mat.clone()),
            Err(p) => ctx.panic("Directory::to_writer", &p, mat.clone()),
        }
        let mut aout = AInst::new(Vec::new());
        aout.pend = Pend::Alternate;
        match guard(|| block_on(d.to_async_writer(&mut aout, comp))) {
            Ok(Err(_)) => ctx.count("serialiser_rejections_async"),
            Ok(Ok(())) => ctx.violation("Directory::to_async_writer", "accepts-zero-length", "serialiser accepts an entry of length 0", &format!("entry {at} of {n}"), mat.clone()),
            Err(p) => ctx.panic("Directory::to_async_writer", &p, mat.clone()),
        }
        // the directory-tree writer (root + leaf directories) uses the same serialiser: it must refuse as well
        if at % 3 == 0 || n > 4000 {
            let le = gen::to_lib_entries(&bad);
            let mut out = std::io::Cursor::new(Vec::new());
            match guard(|| pmtiles2::util::write_directories(&mut out, &le, comp, None).map(|l| l.len())) {
                Ok(Err(_)) => ctx.count("tree_writer_rejections"),
                Ok(Ok(_)) => ctx.violation("util::write_directories", "accepts-zero-length", "directory-tree writer accepts an entry of length 0", &format!("entry {at} of {n} has length 0 but write_directories returned Ok"), mat.clone()),
                Err(p) => ctx.panic("util::write_directories", &p, mat.clone()),
            }
            let mut aout = AInst::new(Vec::new());
            match guard(|| block_on(pmtiles2::util::write_directories_async(&mut aout, &le, comp, None)).map(|l| l.len())) {
                Ok(Err(_)) => ctx.count("tree_writer_rejections"),
                Ok(Ok(_)) => ctx.violation("util::write_directories_async", "accepts-zero-length", "directory-tree writer accepts an entry of length 0", &format!("entry {at} of {n}"), mat.clone()),
                Err(p) => ctx.panic("util::write_directories_async", &p, mat.clone()),
            }
        }
        // parser: the independent encoder happily writes the length-0 entry
        let raw = R::codec_compress(codec, &R::dir_encode(&bad), &R::CodecParams::plain()).expect("codec");
        match guard(|| Directory::from_bytes(&raw, comp)) {
            Ok(Err(_)) => ctx.count("parser_rejections"),
            Ok(Ok(_)) => ctx.violation("Directory::from_bytes", "accepts-zero-length", "parser accepts an entry of length 0", &format!("entry {at} of {n} has length 0 but from_bytes returned Ok"), mat.clone()),
            Err(p) => ctx.panic("Directory::from_bytes", &p, mat.clone()),
        }
        let mut ar = AInst::new(raw.clone());
        ar.pend = Pend::Alternate;
        let rl = raw.len() as u64;
        match guard(|| block_on(Directory::from_async_reader(&mut ar, rl, comp))) {
            Ok(Err(_)) => ctx.count("parser_rejections_async"),
            Ok(Ok(_)) => ctx.violation("Directory::from_async_reader", "accepts-zero-length", "parser accepts an entry of length 0", &format!("entry {at} of {n}"), mat.clone()),
            Err(p) => ctx.panic("Directory::from_async_reader", &p, mat.clone()),
        }
        ctx.case(hash_u64s(&[gen::entries_fp(&bad), at as u64, u64::from(codec)]), true);
    }
    // a length varint that is a non-zero multiple of 2^32 denotes length 0 once narrowed to the 32-bit field:
    // the parser must refuse it (or at least never hand out an entry of length 0)
    for k in [1u64 << 32, 2 << 32, 1 << 40] {
        let at = rng.usize(0, n - 1);
        let mut plain = Vec::new();
        R::put_varint(&mut plain, n as u64);
        let mut last = 0u64;
        for e in &list {
            R::put_varint(&mut plain, e.tile_id - last);
            last = e.tile_id;
        }
        for e in &list {
            R::put_varint(&mut plain, u64::from(e.run_length));
        }
        for (j, e) in list.iter().enumerate() {
            R::put_varint(&mut plain, if j == at { k } else { u64::from(e.length) });
        }
        for e in &list {
            R::put_varint(&mut plain, e.offset + 1);
        }
        let raw = R::codec_compress(codec, &plain, &R::CodecParams::plain()).expect("codec");
        let mat = json!({"entries": n, "length_varint": k, "at": at, "codec": R::codec_name(codec)});
        match guard(|| Directory::from_bytes(&raw, comp)) {
            Ok(Err(_)) => ctx.count("parser_rejections"),
            Ok(Ok(d)) => {
                if (&d).into_iter().any(|e| e.length == 0) {
                    ctx.violation("Directory::from_bytes", "accepts-zero-length", "parser hands out an entry of length 0 (length varint k*2^32)", &format!("entry {at} of {n}"), mat.clone());
                }
            }
            Err(p) => ctx.panic("Directory::from_bytes", &p, mat.clone()),
        }
        let mut ar = AInst::new(raw.clone());
        let rl = raw.len() as u64;
        match guard(|| block_on(Directory::from_async_reader(&mut ar, rl, comp))) {
            Ok(Err(_)) => ctx.count("parser_rejections_async"),
            Ok(Ok(d)) => {
                if (&d).into_iter().any(|e| e.length == 0) {
                    ctx.violation("Directory::from_async_reader", "accepts-zero-length", "parser hands out an entry of length 0 (length varint k*2^32)", &format!("entry {at} of {n}"), mat.clone());
                }
            }
            Err(p) => ctx.panic("Directory::from_async_reader", &p, mat.clone()),
        }
    }
    // control: the unmodified list is accepted (so a rejection above is about the zero length)
    let d = Directory::from(gen::to_lib_entries(&list));
    let mut out = Vec::new();
    if d.to_writer(&mut out, comp).is_err() || Directory::from_bytes(&out, comp).is_err() {
        ctx.inconclusive("control directory without a zero-length entry is refused");
    }
}

fn empty_add(ctx: &mut Ctx, case: u64) {
    // empty add at every point of a random history; the archive must be exactly as before
    let mut rng = ctx.rng("c19.add", case);
    let nops = rng.usize(5, 40);
    let pool: Vec<Vec<u8>> = (0..6).map(|j| vec![j as u8 + 1; rng.usize(1, 30)]).collect();
    let ids: Vec<u64> = (0..10).map(|j| if j < 5 { j } else { rng.below(1 << 30) }).collect();
    let mut ops = Vec::new();
    for j in 0..nops {
        ops.push(match rng.below(10) {
            0..=5 => Op::Add(*rng.pick(&ids), rng.usize(0, pool.len() - 1)),
            6..=7 => Op::Remove(*rng.pick(&ids)),
            _ => Op::Reopen(j % 2 == 0, R::CODECS[j % 4]),
        });
    }
    let mut universe = ids.clone();
    universe.extend([77, 1 << 40]);
    let mut model = Model::default();
    let mut arch = Arch::empty();
    let mat = json!({"history_ops": nops, "case": case});
    for (k, op) in ops.iter().enumerate() {
        arch = match guard(|| apply(arch, &mut model, op, &pool)) {
            Ok(Ok(a)) => a,
            _ => {
                ctx.inconclusive("C19 history: a valid operation failed (see C04)");
                return;
            }
        };
        // the offending call: empty content on an existing id, an absent id, and via different Into<Vec<u8>> types
        for target in [*rng.pick(&ids), 424_242] {
            let before_report = arch.report();
            let variant = rng.below(8);
            let r1 = guard(|| arch.add_empty(target, variant));
            match r1 {
                Ok(Err(_)) => ctx.count("empty_adds_refused"),
                Ok(Ok(())) => {
                    ctx.violation("PMTiles::add_tile", "accepts-empty", "adding a tile with empty content succeeds", &format!("add_tile({target}, []) returned Ok after {k} operations"), mat.clone());
                    return;
                }
                Err(p) => {
                    ctx.panic("PMTiles::add_tile", &p, mat.clone());
                    return;
                }
            }
            if let Err(e) = guard(|| compare_full(&mut arch, &model, &universe, true)).unwrap_or_else(|p| Err(format!("panic: {}", p.msg))) {
                ctx.violation(
                    "PMTiles::add_tile",
                    "refusal-changed-archive",
                    "a refused empty add changed the archive",
                    &format!("after the refused add_tile({target}, []) following operation {k}: {e}"),
                    mat.clone(),
                );
                return;
            }
            if arch.report() != before_report {
                ctx.violation("PMTiles::add_tile", "refusal-changed-archive", "a refused empty add changed the builder's store", "store report differs before/after the refused call", mat.clone());
                return;
            }
            let _ = check_store(&arch.report(), &model);
        }
    }
    // the bytes of a subsequent save equal those of an untouched twin
    let mut twin_model = Model::default();
    let mut twin = Arch::empty();
    for op in &ops {
        twin = match apply(twin, &mut twin_model, op, &pool) {
            Ok(t) => t,
            Err(_) => return,
        };
    }
    arch.set_codec(R::C_NONE);
    twin.set_codec(R::C_NONE);
    if let (Ok(a), Ok(b)) = (arch.save(), twin.save()) {
        if a != b {
            ctx.violation("PMTiles::add_tile", "refusal-changed-archive", "refused empty adds changed the bytes of a subsequent save", "saved bytes differ from an untouched twin", mat);
        } else {
            ctx.count("saves_equal_to_untouched_twin");
        }
    }
    ctx.case(hash_u64s(&[case, 19]), true);
}

fn metadata_shapes(ctx: &mut Ctx, case: u64) {
    let mut rng = ctx.rng("c19.meta", case);
    let shapes: [(&str, &[u8]); 16] = [
        ("string holding an object", b"\"{}\""),
        ("string holding an object with members", b"\"{\\\"name\\\":\\\"demo\\\"}\""),
        ("doubly wrapped string", b"\"\\\"{}\\\"\""),
        ("array holding an object", b"[{}]"),
        ("one-digit number", b"7"),
        ("zero", b"0"),
        ("array of arrays", b"[[],[{}]]"),
        ("null", b"null"),
        ("true", b"true"),
        ("false", b"false"),
        ("number", b"42"),
        ("float", b"-1.5e3"),
        ("string", b"\"an object? no\""),
        ("array", b"[{\"a\":1}]"),
        ("empty array", b"[]"),
        ("empty string", b"\"\""),
    ];
    let mut shapes: Vec<(String, Vec<u8>)> = shapes.iter().map(|(n, r)| (n.to_string(), r.to_vec())).collect();
    // long non-object values with multi-byte characters at every byte offset around typical excerpt lengths
    for pad in [0usize, 1, 2, 3, 29, 30, 31, 45, 46, 47, 48, 61, 62, 63, 125, 126, 253, 254] {
        let body: String = "a".repeat(pad) + &"é日😀".repeat(40);
        shapes.push((format!("long string, multi-byte characters from byte {}", pad + 1), format!("\"{body}\"").into_bytes()));
    }
    shapes.push((String::from("long array of multi-byte strings"), format!("[{}]", vec!["\"日本語\""; 40].join(",")).into_bytes()));
    shapes.push((String::from("long number"), "1234567890".repeat(6).into_bytes()));
    for codec in R::CODECS {
        for (name, raw) in &shapes {
            let o = ForeignOpts {
                codec,
                n_entries: rng.usize(0, 20),
                depth: 1,
                permute_sections: false,
                gaps: false,
                empty_metadata: false,
                offset_style: 0,
                raw_metadata: Some(raw.to_vec()),
                dup_contents: false,
                prefix_entries: false,
                leaf_entries: None,
                align_gzip_leaves: false,
                small_metadata: false,
                mixed_dirs: false,
                alias_leaf_offset: false,
                regular: None,
                gap_mode: 0,
                end_at_domain: false,
            };
            let f = gen::gen_foreign(&mut rng, &o);
            let mat = json!({"metadata": name, "codec": R::codec_name(codec)});
            match guard(|| PMTiles::from_bytes(f.bytes.clone()).map(|p| p.num_tiles())) {
                Ok(Err(_)) => ctx.count("non_object_metadata_refused"),
                Ok(Ok(_)) => ctx.violation("PMTiles::from_bytes", "accepts-non-object-metadata", &format!("metadata that is JSON {name} is accepted"), &format!("archive whose metadata is `{}` opened", String::from_utf8_lossy(&raw[..raw.len().min(80)])), mat.clone()),
                Err(p) => ctx.panic("PMTiles::from_bytes", &p, mat.clone()),
            }
            let mut a = AInst::new(f.bytes.clone());
            a.pend = Pend::Alternate;
            match guard(|| block_on(PMTiles::from_async_reader(&mut a)).map(|p| p.num_tiles())) {
                Ok(Err(_)) => ctx.count("non_object_metadata_refused_async"),
                Ok(Ok(_)) => ctx.violation("PMTiles::from_async_reader", "accepts-non-object-metadata", &format!("metadata that is JSON {name} is accepted"), "async open succeeded", mat.clone()),
                Err(p) => ctx.panic("PMTiles::from_async_reader", &p, mat.clone()),
            }
            ctx.case(hash_u64s(&[crate::rng::hash_bytes(&f.bytes), 1]), true);
        }
        // control: the same archive with object metadata opens
        let o = ForeignOpts {
            codec,
            n_entries: 5,
            depth: 1,
            permute_sections: false,
            gaps: false,
            empty_metadata: false,
            offset_style: 0,
            raw_metadata: Some(b"{\"ok\":true}".to_vec()),
            dup_contents: false,
                prefix_entries: false,
                leaf_entries: None,
                align_gzip_leaves: false,
                small_metadata: false,
                mixed_dirs: false,
                alias_leaf_offset: false,
                regular: None,
                gap_mode: 0,
                end_at_domain: false,
        };
        let f = gen::gen_foreign(&mut rng, &o);
        if PMTiles::from_bytes(f.bytes).is_err() {
            ctx.inconclusive("control archive with object metadata is refused");
        }
    }
}

/// Range-filtered opens (ordinary, empty and inverted ranges; sync and async) of an archive whose internal
/// compression is unknown: every one of them is an open and must be refused.
fn partial_opens_refuse(ctx: &mut Ctx, bytes: &[u8], mat: &serde_json::Value) {
    use std::ops::Bound::{Excluded, Included, Unbounded};
    let ranges = [
        ("0..", (Included(0u64), Unbounded)),
        ("0..0", (Included(0), Excluded(0))),
        ("7..7", (Included(7), Excluded(7))),
        ("9..=3", (Included(9), Included(3))),
        ("..0", (Unbounded, Excluded(0))),
        ("..=u64::MAX", (Unbounded, Included(u64::MAX))),
    ];
    for (name, r) in ranges {
        let m = json!({"archive": mat, "range": name});
        match guard(|| PMTiles::from_bytes_partially(bytes.to_vec(), r).map(|p| p.num_tiles())) {
            Ok(Err(_)) => ctx.count("unknown_compression_refused_on_partial_open"),
            Ok(Ok(_)) => ctx.violation("PMTiles::from_bytes_partially", "accepts-unknown-compression", "range-filtered opening with unknown internal compression succeeds", &format!("from_bytes_partially({name}) returned Ok"), m.clone()),
            Err(p) => ctx.panic("PMTiles::from_bytes_partially", &p, m.clone()),
        }
        let mut a = AInst::new(bytes.to_vec());
        a.pend = Pend::Alternate;
        match guard(|| block_on(PMTiles::from_async_reader_partially(&mut a, r)).map(|p| p.num_tiles())) {
            Ok(Err(_)) => ctx.count("unknown_compression_refused_on_partial_open"),
            Ok(Ok(_)) => ctx.violation("PMTiles::from_async_reader_partially", "accepts-unknown-compression", "range-filtered opening with unknown internal compression succeeds", &format!("from_async_reader_partially({name}) returned Ok"), m.clone()),
            Err(p) => ctx.panic("PMTiles::from_async_reader_partially", &p, m),
        }
    }
}

fn unknown_compression(ctx: &mut Ctx, case: u64) {
    let mut rng = ctx.rng("c19.unknown", case);
    // writing
    for with_tiles in [false, true] {
        for asyncm in [false, true] {
            let mat = json!({"with_tiles": with_tiles, "async": asyncm});
            let r = guard(|| {
                if asyncm {
                    let mut pm = PMTiles::new_async(TileType::Png, Compression::None);
                    pm.internal_compression = Compression::Unknown;
                    if with_tiles {
                        let _ = pm.add_tile(1, vec![1, 2, 3]);
                    }
                    let mut out = futures::io::Cursor::new(Vec::new());
                    block_on(pm.to_async_writer(&mut out))
                } else {
                    let mut pm = PMTiles::new(TileType::Png, Compression::None);
                    pm.internal_compression = Compression::Unknown;
                    if with_tiles {
                        let _ = pm.add_tile(1, vec![1, 2, 3]);
                    }
                    let mut out = std::io::Cursor::new(Vec::new());
                    pm.to_writer(&mut out)
                }
            });
            match r {
                Ok(Err(_)) => ctx.count("unknown_compression_refused_on_write"),
                Ok(Ok(())) => ctx.violation("PMTiles::to_writer", "accepts-unknown-compression", "writing with unknown internal compression succeeds", "to_writer returned Ok", mat),
                Err(p) => ctx.panic("PMTiles::to_writer", &p, mat),
            }
        }
    }
    // opening: valid archives whose header byte 97 is patched to 0
    for codec in R::CODECS {
        for empty_meta in [false, true] {
            let o = ForeignOpts {
                codec,
                n_entries: rng.usize(0, 30),
                depth: rng.range(1, 2) as u32,
                permute_sections: false,
                gaps: false,
                empty_metadata: empty_meta,
                offset_style: 0,
                raw_metadata: None,
                dup_contents: false,
                prefix_entries: false,
                leaf_entries: None,
                align_gzip_leaves: false,
                small_metadata: false,
                mixed_dirs: false,
                alias_leaf_offset: false,
                regular: None,
                gap_mode: 0,
                end_at_domain: false,
            };
            let mut f = gen::gen_foreign(&mut rng, &o);
            f.bytes[97] = 0;
            let mat = json!({"layout": f.layout, "empty_metadata": empty_meta});
            match guard(|| PMTiles::from_bytes(f.bytes.clone()).map(|p| p.num_tiles())) {
                Ok(Err(_)) => ctx.count("unknown_compression_refused_on_open"),
                Ok(Ok(_)) => ctx.violation("PMTiles::from_bytes", "accepts-unknown-compression", "opening with unknown internal compression succeeds", "from_bytes returned Ok", mat.clone()),
                Err(p) => ctx.panic("PMTiles::from_bytes", &p, mat.clone()),
            }
            let mut a = AInst::new(f.bytes.clone());
            match guard(|| block_on(PMTiles::from_async_reader(&mut a)).map(|p| p.num_tiles())) {
                Ok(Err(_)) => ctx.count("unknown_compression_refused_on_open_async"),
                Ok(Ok(_)) => ctx.violation("PMTiles::from_async_reader", "accepts-unknown-compression", "opening with unknown internal compression succeeds", "async open returned Ok", mat.clone()),
                Err(p) => ctx.panic("PMTiles::from_async_reader", &p, mat.clone()),
            }
            partial_opens_refuse(ctx, &f.bytes, &mat);
            ctx.case(hash_u64s(&[crate::rng::hash_bytes(&f.bytes), 2]), true);
        }
    }
    // an archive whose sections are all empty still declares a compression nobody can decode
    {
        let mut h = R::RHeader::default();
        h.internal_compression = 0;
        h.root_offset = 127;
        h.root_length = 0;
        let bytes = R::header_pack(&h).to_vec();
        for extra in [0usize, 1, 64] {
            let mut b = bytes.clone();
            b.extend(std::iter::repeat(0u8).take(extra));
            let mat = json!({"archive": "header only, all section lengths 0, internal compression unknown", "trailing_bytes": extra});
            match guard(|| PMTiles::from_bytes(b.clone()).map(|p| p.num_tiles())) {
                Ok(Err(_)) => ctx.count("unknown_compression_refused_on_open"),
                Ok(Ok(_)) => ctx.violation("PMTiles::from_bytes", "accepts-unknown-compression", "opening with unknown internal compression succeeds (empty sections)", "from_bytes returned Ok", mat.clone()),
                Err(p) => ctx.panic("PMTiles::from_bytes", &p, mat.clone()),
            }
            let mut a = AInst::new(b.clone());
            match guard(|| block_on(PMTiles::from_async_reader(&mut a)).map(|p| p.num_tiles())) {
                Ok(Err(_)) => ctx.count("unknown_compression_refused_on_open_async"),
                Ok(Ok(_)) => ctx.violation("PMTiles::from_async_reader", "accepts-unknown-compression", "opening with unknown internal compression succeeds (empty sections)", "async open returned Ok", mat.clone()),
                Err(p) => ctx.panic("PMTiles::from_async_reader", &p, mat.clone()),
            }
            partial_opens_refuse(ctx, &b, &mat);
        }
        for len in [0u64, 1] {
            let data = vec![0u8; len as usize];
            match guard(|| Directory::from_bytes(&data, Compression::Unknown)) {
                Ok(Err(_)) => ctx.count("unknown_compression_refused_directory"),
                Ok(Ok(_)) => ctx.violation("Directory::from_bytes", "accepts-unknown-compression", "directory parsed with unknown compression (empty input)", "Ok", json!({"len": len})),
                Err(p) => ctx.panic("Directory::from_bytes", &p, json!({"len": len})),
            }
            let mut a = AInst::new(data.clone());
            match guard(|| block_on(Directory::from_async_reader(&mut a, len, Compression::Unknown))) {
                Ok(Err(_)) => ctx.count("unknown_compression_refused_directory"),
                Ok(Ok(_)) => ctx.violation("Directory::from_async_reader", "accepts-unknown-compression", "directory parsed with unknown compression (empty input)", "Ok", json!({"len": len})),
                Err(p) => ctx.panic("Directory::from_async_reader", &p, json!({"len": len})),
            }
        }
    }
    // the same refusals for large inputs (more than 2^16 entries / tiles)
    {
        let big: Vec<pmtiles2::Entry> = (0..66_000u64).map(|k| pmtiles2::Entry { tile_id: k * 2, offset: k * 3, length: 3, run_length: 1 }).collect();
        let d = Directory::from(big.clone());
        match guard(|| d.to_writer(&mut Vec::new(), Compression::Unknown)) {
            Ok(Err(_)) => ctx.count("unknown_compression_refused_directory"),
            Ok(Ok(())) => ctx.violation("Directory::to_writer", "accepts-unknown-compression", "large directory written with unknown compression", "Ok", json!({"entries": 66_000})),
            Err(p) => ctx.panic("Directory::to_writer", &p, json!({"entries": 66_000})),
        }
        match guard(|| pmtiles2::util::write_directories(&mut std::io::Cursor::new(Vec::new()), &big, Compression::Unknown, None).map(|v| v.len())) {
            Ok(Err(_)) => ctx.count("unknown_compression_refused_directory"),
            Ok(Ok(_)) => ctx.violation("util::write_directories", "accepts-unknown-compression", "large directory tree written with unknown compression", "Ok", json!({"entries": 66_000})),
            Err(p) => ctx.panic("util::write_directories", &p, json!({"entries": 66_000})),
        }
        let r = guard(|| {
            let mut pm = PMTiles::new(TileType::Png, Compression::None);
            pm.internal_compression = Compression::Unknown;
            for k in 0..66_000u64 {
                let _ = pm.add_tile(k * 2, vec![(k % 250) as u8 + 1, 7]);
            }
            pm.to_writer(&mut std::io::Cursor::new(Vec::new()))
        });
        match r {
            Ok(Err(_)) => ctx.count("unknown_compression_refused_on_write"),
            Ok(Ok(())) => ctx.violation("PMTiles::to_writer", "accepts-unknown-compression", "writing a large archive with unknown internal compression succeeds", "to_writer returned Ok", json!({"tiles": 66_000})),
            Err(p) => ctx.panic("PMTiles::to_writer", &p, json!({"tiles": 66_000})),
        }
    }
    // Directory level
    let list: Vec<REntry> = gen::gen_entries(&mut rng, 5, false, false);
    let d = Directory::from(gen::to_lib_entries(&list));
    let mut out = Vec::new();
    match guard(|| d.to_writer(&mut out, Compression::Unknown)) {
        Ok(Err(_)) => ctx.count("unknown_compression_refused_directory"),
        Ok(Ok(())) => ctx.violation("Directory::to_writer", "accepts-unknown-compression", "directory written with unknown compression", "Ok", json!({})),
        Err(p) => ctx.panic("Directory::to_writer", &p, json!({})),
    }
    match guard(|| Directory::from_bytes(R::dir_encode(&list), Compression::Unknown)) {
        Ok(Err(_)) => ctx.count("unknown_compression_refused_directory"),
        Ok(Ok(_)) => ctx.violation("Directory::from_bytes", "accepts-unknown-compression", "directory parsed with unknown compression", "Ok", json!({})),
        Err(p) => ctx.panic("Directory::from_bytes", &p, json!({})),
    }
}

pub fn run(ctx: &mut Ctx) {
    let mut case = 0u64;
    for i in 0..ctx.n(200, 20_000) {
        if ctx.mine(case) {
            ctx.begin(case);
            zero_len_dir(ctx, i);
            ctx.end(case);
        }
        case += 1;
    }
    for i in 0..ctx.n(120, 10_000) {
        if ctx.mine(case) {
            ctx.begin(case);
            empty_add(ctx, i);
            ctx.end(case);
        }
        case += 1;
    }
    for i in 0..ctx.n(8, 300) {
        if ctx.mine(case) {
            ctx.begin(case);
            metadata_shapes(ctx, i);
            ctx.end(case);
        }
        case += 1;
    }
    for i in 0..ctx.n(8, 60) {
        if ctx.mine(case) {
            ctx.begin(case);
            unknown_compression(ctx, i);
            ctx.end(case);
        }
        case += 1;
    }
    if ctx.shard == 0 {
        ctx.sample(json!({"clause": "zero-length entry", "example": "directory of 57 entries, entry 13 with length 0, gzip", "expected": "Err from to_writer, to_async_writer, from_bytes, from_async_reader"}));
        ctx.sample(json!({"clause": "empty add", "example": "add_tile(id, []) after each operation of a random history", "expected": "Err and identical observable state + store report"}));
        ctx.sample(json!({"clause": "metadata", "example": "[{\"a\":1}]", "expected": "Err"}));
    }
    let _ = Rng::new(0);
}
