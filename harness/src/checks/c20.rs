//! C20 — opening is lazy and every read stays inside the section it serves.

use crate::checks::common::{logical_for, write_sync};
use crate::gen;
use crate::io::{Op, OpKind, Sched, Shared, SharedA};
use crate::obs::{guard, Ctx};
use crate::refimpl::{self as R, RHeader};
use crate::rng::hash_bytes;
use futures::executor::block_on;
use pmtiles2::PMTiles;
use serde_json::{json, Value};
use std::collections::BTreeMap;

fn reads(ops: &[Op]) -> Vec<(u64, u64)> {
    ops.iter()
        .filter(|o| o.kind == OpKind::Read)
        .filter_map(|o| o.res.filter(|n| *n > 0).map(|n| (o.pos, o.pos + n)))
        .collect()
}

/// sections an open may read
fn allowed(h: &RHeader) -> Vec<(&'static str, u64, u64)> {
    vec![
        ("header", 0, 127),
        ("root", h.root_offset, h.root_offset + h.root_length),
        ("metadata", h.meta_offset, h.meta_offset + h.meta_length),
        ("leaves", h.leaf_offset, h.leaf_offset + h.leaf_length),
    ]
}

/// Returns per-section byte counts, or the first byte read outside every allowed section.
fn judge_open(h: &RHeader, rr: &[(u64, u64)]) -> Result<BTreeMap<&'static str, u64>, (u64, &'static str)> {
    let al = allowed(h);
    let mut per: BTreeMap<&'static str, u64> = BTreeMap::new();
    for (a, b) in rr {
        let mut cur = *a;
        while cur < *b {
            // the allowed section containing `cur`
            match al.iter().find(|(_, s, e)| cur >= *s && cur < *e) {
                Some((name, _, e)) => {
                    let upto = (*b).min(*e);
                    *per.entry(name).or_insert(0) += upto - cur;
                    cur = upto;
                }
                None => {
                    let wh = if cur >= h.data_offset && cur < h.data_offset + h.data_length { "tile data section" } else { "a gap outside every section" };
                    return Err((cur, wh));
                }
            }
        }
    }
    Ok(per)
}

struct Case {
    bytes: Vec<u8>,
    header: RHeader,
    truth: BTreeMap<u64, (u64, u32)>,
    label: String,
    foreign: bool,
}

fn make_case(ctx: &Ctx, i: u64) -> Option<Case> {
    let mut rng = ctx.rng("c20", i);
    if i % 2 == 0 {
        let codec = R::CODECS[((i / 2) % 4) as usize];
        let mut o = gen::gen_foreign_opts(&mut rng, codec, 3000);
        o.permute_sections = i % 4 == 0 || o.permute_sections;
        o.gaps = true;
        if i % 160 == 82 {
            // ONE uncompressed leaf directory with more than 2^16 entries, tile data stored directly behind the leaf section
            o = gen::gen_foreign_opts(&mut rng, R::C_NONE, 100);
            o.codec = R::C_NONE;
            o.n_entries = 70_000 + rng.usize(0, 3000);
            o.regular = Some(1);
            o.depth = 2;
            o.leaf_entries = Some(400_000);
            o.gaps = false;
            o.permute_sections = false;
            o.mixed_dirs = false;
            o.alias_leaf_offset = false;
            o.offset_style = 0;
            o.small_metadata = true;
        }
        let f = gen::gen_foreign(&mut rng, &o);
        Some(Case {
            header: f.header,
            truth: f.truth,
            label: format!("foreign {}", f.layout),
            bytes: f.bytes,
            foreign: true,
        })
    } else if i % 160 == 81 {
        // >= 2^17 ids backed by one content + a few others
        let codec = R::CODECS[((i / 2) % 4) as usize];
        let mut l = gen::gen_logical(&mut rng, gen::SizeClass::Small, codec);
        let shared = std::rc::Rc::new(rng.bytes(600));
        let start = 1_000_000 + rng.below(1000);
        for k in 0..(140_000 + rng.below(9000)) {
            l.tiles.insert(start + k, shared.clone());
        }
        l.class = String::from("one content under >= 2^17 ids");
        let bytes = write_sync(l.build()).ok()?;
        let v = R::validate(&bytes, &crate::checks::common::strict_opts()).ok()?;
        Some(Case {
            header: v.header,
            truth: v.abs,
            label: format!("library-written {} {}", l.class, R::codec_name(l.internal_compression)),
            bytes,
            foreign: false,
        })
    } else {
        let l = if i % 160 == 43 {
            // tiles above 2^24 bytes whose length is no multiple of any block size, with other tiles stored behind them
            let len = (1 << 24) + 1 + rng.usize(0, 600_000);
            gen::gen_huge_tiles(&mut rng, R::CODECS[((i / 2) % 4) as usize], len)
        } else {
            logical_for(ctx, "c20.logical", i)
        };
        let bytes = write_sync(l.build()).ok()?;
        let v = R::validate(&bytes, &crate::checks::common::strict_opts()).ok()?;
        Some(Case {
            header: v.header,
            truth: v.abs,
            label: format!("library-written {} {}", l.class, R::codec_name(l.internal_compression)),
            bytes,
            foreign: false,
        })
    }
}

fn check_lookup_ops(ctx: &mut Ctx, api: &str, id: u64, off: u64, len: u32, ops: &[Op], mat: &Value) -> bool {
    let rr = reads(ops);
    let (a, b) = (off, off + u64::from(len));
    for (x, y) in &rr {
        if *x < a || *y > b {
            ctx.violation(
                api,
                "lookup-reads-outside-tile",
                "a tile lookup reads bytes outside the tile's byte range",
                &format!("lookup of tile {id} (range [{a},{b})) read [{x},{y})"),
                mat.clone(),
            );
            return false;
        }
    }
    // coverage: exactly the tile's range
    let mut cov = rr.clone();
    cov.sort_unstable();
    let mut cur = a;
    for (x, y) in cov {
        if x > cur {
            break;
        }
        cur = cur.max(y);
    }
    if cur < b {
        ctx.violation(api, "lookup-short", "a tile lookup does not read the tile's whole byte range", &format!("tile {id}: range [{a},{b}) read only up to {cur}"), mat.clone());
        return false;
    }
    true
}

pub fn run(ctx: &mut Ctx) {
    let n = ctx.n(480, 50_000);
    for i in 0..n {
        if !ctx.mine(i) {
            continue;
        }
        ctx.begin(i);
        let Some(c) = make_case(ctx, i) else {
            ctx.inconclusive("C20: case generation failed");
            ctx.end(i);
            continue;
        };
        let h = c.header;
        let mat = json!({"archive": c.label, "file_bytes": c.bytes.len(),
                         "sections": {"root": [h.root_offset, h.root_length], "metadata": [h.meta_offset, h.meta_length],
                                      "leaves": [h.leaf_offset, h.leaf_length], "tile_data": [h.data_offset, h.data_length]}});
        ctx.case(hash_bytes(&c.bytes), c.truth.len() >= 2);
        let mut rng = ctx.rng("c20.ids", i);
        // ids to look up: all for small archives, 500 sampled otherwise
        let all: Vec<u64> = c.truth.keys().copied().collect();
        let ids: Vec<u64> = if all.len() <= 500 { all.clone() } else { (0..500).map(|_| *rng.pick(&all)).collect() };
        let asyncm = (i / 2) % 2 == 1;
        let partial = i % 3 == 0;
        let range = if partial && !all.is_empty() && i % 9 == 0 {
            // a range selecting exactly one stored id ("point query")
            let a = *rng.pick(&all);
            ctx.count("partial_opens_selecting_one_id");
            (a, a)
        } else if partial && !all.is_empty() {
            let a = *rng.pick(&all);
            let b = *rng.pick(&all);
            (a.min(b), a.max(b))
        } else {
            (0, u64::MAX)
        };
        let api_open = match (asyncm, partial) {
            (false, false) => "PMTiles::from_reader",
            (false, true) => "PMTiles::from_reader_partially",
            (true, false) => "PMTiles::from_async_reader",
            (true, true) => "PMTiles::from_async_reader_partially",
        };
        // every fifth archive through a stream that returns fewer bytes than asked for (first read of 1-126 bytes, then
        // random short reads): which bytes are touched must not depend on that
        let fragment = i % 5 == 2 || i % 5 == 3;
        let frag_sched = if i % 10 < 5 { Sched::Random(crate::rng::Rng::new(rng.next()), 300) } else { Sched::Fixed(*rng.pick(&[61usize, 126, 127, 4000])) };
        if fragment {
            ctx.count("archives_read_through_short_reads");
        }
        let r = guard(|| -> Result<(), String> {
            if asyncm {
                let s = SharedA::recording(c.bytes.clone(), true);
                if fragment {
                    s.core.lock().expect("lock").rsched = frag_sched.clone();
                }
                let mon = s.clone();
                let mut pm = block_on(PMTiles::from_async_reader_partially(s, range.0..=range.1)).map_err(|e| format!("open failed: {e}"))?;
                let open_ops = mon.ops_since(0);
                judge(ctx, api_open, &h, &open_ops, &mat);
                for id in &ids {
                    if *id < range.0 || *id > range.1 {
                        continue;
                    }
                    let from = mon.log_len();
                    let t = block_on(pm.get_tile_by_id_async(*id)).map_err(|e| e.to_string())?;
                    let (off, len) = c.truth[id];
                    if t.as_deref() != Some(&c.bytes[off as usize..off as usize + len as usize]) {
                        return Err(format!("tile {id} differs from the addressed bytes"));
                    }
                    if check_lookup_ops(ctx, "PMTiles::get_tile_by_id_async", *id, off, len, &mon.ops_since(from), &mat) {
                        ctx.count("lookups_exact");
                    }
                }
                if let (Some(a), Some(b)) = (ids.iter().find(|i| **i >= range.0 && **i <= range.1), ids.iter().rev().find(|i| **i >= range.0 && **i <= range.1)) {
                    {
                        let mut c = mon.core.lock().expect("lock");
                        c.fail_once_at = Some(c.nops + (i / 4) % 2);
                    }
                    let _ = block_on(pm.get_tile_by_id_async(*a));
                    mon.core.lock().expect("lock").fail_once_at = None;
                    let from = mon.log_len();
                    if let Ok(Some(got)) = block_on(pm.get_tile_by_id_async(*b)) {
                        let (off, len) = c.truth[b];
                        if got != c.bytes[off as usize..off as usize + len as usize] {
                            return Err(format!("tile {b} differs from the addressed bytes after a failed lookup"));
                        }
                        if check_lookup_ops(ctx, "PMTiles::get_tile_by_id_async", *b, off, len, &mon.ops_since(from), &mat) {
                            ctx.count("lookups_exact_after_a_failed_lookup");
                        }
                    }
                }
                // a miss must not read anything
                let from = mon.log_len();
                let _ = block_on(pm.get_tile_by_id_async(u64::MAX - 5));
                if !reads(&mon.ops_since(from)).is_empty() {
                    ctx.violation("PMTiles::get_tile_by_id_async", "miss-reads", "a lookup of an absent tile reads from the stream", "bytes were read for an absent id", mat.clone());
                }
            } else {
                let s = Shared::recording(c.bytes.clone());
                if fragment {
                    s.core.lock().expect("lock").rsched = frag_sched.clone();
                }
                let mon = s.clone();
                let mut pm = PMTiles::from_reader_partially(s, range.0..=range.1).map_err(|e| format!("open failed: {e}"))?;
                let open_ops = mon.ops_since(0);
                judge(ctx, api_open, &h, &open_ops, &mat);
                for id in &ids {
                    if *id < range.0 || *id > range.1 {
                        continue;
                    }
                    let from = mon.log_len();
                    let t = pm.get_tile_by_id(*id).map_err(|e| e.to_string())?;
                    let (off, len) = c.truth[id];
                    if t.as_deref() != Some(&c.bytes[off as usize..off as usize + len as usize]) {
                        return Err(format!("tile {id} differs from the addressed bytes"));
                    }
                    if check_lookup_ops(ctx, "PMTiles::get_tile_by_id", *id, off, len, &mon.ops_since(from), &mat) {
                        ctx.count("lookups_exact");
                    }
                }
                // a lookup that fails (one transient stream error), then an ordinary one: it must again read exactly its range
                if let (Some(a), Some(b)) = (ids.iter().find(|i| **i >= range.0 && **i <= range.1), ids.iter().rev().find(|i| **i >= range.0 && **i <= range.1)) {
                    // the failure hits the lookup's first stream operation (the seek) or its second one (the read)
                    {
                        let mut c = mon.core.lock().expect("lock");
                        c.fail_once_at = Some(c.nops + (i / 2) % 2);
                    }
                    let _ = pm.get_tile_by_id(*a);
                    mon.core.lock().expect("lock").fail_once_at = None;
                    let from = mon.log_len();
                    if let Ok(Some(got)) = pm.get_tile_by_id(*b) {
                        let (off, len) = c.truth[b];
                        if got != c.bytes[off as usize..off as usize + len as usize] {
                            return Err(format!("tile {b} differs from the addressed bytes after a failed lookup"));
                        }
                        if check_lookup_ops(ctx, "PMTiles::get_tile_by_id", *b, off, len, &mon.ops_since(from), &mat) {
                            ctx.count("lookups_exact_after_a_failed_lookup");
                        }
                    }
                }
                // after an edit of the opened archive (an unrelated id is added and another removed), a reader-backed tile is looked
                // up twice: both lookups read exactly its range
                if let Some(b) = ids.iter().rev().find(|i| **i >= range.0 && **i <= range.1) {
                    let _ = pm.add_tile(u64::MAX - 77, vec![1u8, 2, 3]);
                    pm.remove_tile(u64::MAX - 77);
                    for _ in 0..2 {
                        let from = mon.log_len();
                        if let Ok(Some(_)) = pm.get_tile_by_id(*b) {
                            let (off, len) = c.truth[b];
                            if check_lookup_ops(ctx, "PMTiles::get_tile_by_id", *b, off, len, &mon.ops_since(from), &mat) {
                                ctx.count("lookups_exact_after_an_edit");
                            }
                        }
                    }
                }
                let from = mon.log_len();
                let _ = pm.get_tile_by_id(u64::MAX - 5);
                if !reads(&mon.ops_since(from)).is_empty() {
                    ctx.violation("PMTiles::get_tile_by_id", "miss-reads", "a lookup of an absent tile reads from the stream", "bytes were read for an absent id", mat.clone());
                }
            }
            Ok(())
        });
        match r {
            Err(p) => ctx.panic(api_open, &p, mat.clone()),
            Ok(Err(e)) => ctx.inconclusive(&format!("C20 workload: {e} ({}); content correctness is C01/C03's business", c.label)),
            Ok(Ok(())) => {
                ctx.count(if c.foreign { "foreign_archives" } else { "library_written_archives" });
                if h.leaf_length > 0 {
                    ctx.count("archives_with_leaves");
                }
                if partial {
                    ctx.count("partial_opens");
                }
                if asyncm {
                    ctx.count("async_opens");
                }
                if h.data_offset < h.root_offset.max(h.meta_offset).max(h.leaf_offset) && h.data_length > 0 {
                    ctx.count("layouts_with_tile_data_before_a_directory_or_metadata");
                }
            }
        }
        if ctx.want_sample() {
            ctx.sample(mat);
        }
        ctx.end(i);
    }
}

fn judge(ctx: &mut Ctx, api: &str, h: &RHeader, ops: &[Op], mat: &Value) {
    let rr = reads(ops);
    match judge_open(h, &rr) {
        Ok(per) => {
            for (k, v) in per {
                ctx.add(&format!("open_bytes_read.{k}"), v);
            }
            ctx.count("opens_within_sections");
            let data_read: u64 = rr.iter().filter(|(a, b)| *b > h.data_offset && *a < h.data_offset + h.data_length).count() as u64;
            ctx.max("tile_data_reads_during_open", data_read);
        }
        Err((at, wh)) => {
            let detail = if wh == "tile data section" { "opening reads bytes of the tile data section" } else { "opening reads bytes outside header, metadata and directory sections" };
            ctx.violation(api, "open-reads-outside-sections", detail, &format!("byte {at} ({wh}) was read while opening"), mat.clone());
        }
    }
}
