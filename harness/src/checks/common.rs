//! Helpers shared by the checks: driving the public API (sync + async) and observing results.

use crate::gen::{self, Logical};
use crate::io::{AInst, Inst};
use crate::refimpl::{self as R, RHeader};
use futures::executor::block_on;
use pmtiles2::PMTiles;
use serde_json::{json, Value};
use std::collections::BTreeMap;
use std::io::{Cursor, Read, Seek};

pub type SyncPm = PMTiles<Cursor<Vec<u8>>>;

pub fn write_sync<RD: Read + Seek>(pm: PMTiles<RD>) -> std::io::Result<Vec<u8>> {
    let mut out = Cursor::new(Vec::<u8>::new());
    pm.to_writer(&mut out)?;
    Ok(out.into_inner())
}

pub fn write_async<RD>(pm: PMTiles<RD>) -> std::io::Result<Vec<u8>>
where
    RD: futures::AsyncRead + futures::AsyncReadExt + Send + Unpin + futures::AsyncSeekExt,
{
    let mut out = futures::io::Cursor::new(Vec::<u8>::new());
    block_on(pm.to_async_writer(&mut out))?;
    Ok(out.into_inner())
}

pub fn write_async_inst<RD>(pm: PMTiles<RD>, out: &mut AInst) -> std::io::Result<()>
where
    RD: futures::AsyncRead + futures::AsyncReadExt + Send + Unpin + futures::AsyncSeekExt,
{
    block_on(pm.to_async_writer(out))
}

/// The API-visible settings of an opened archive, stored-coordinate aware.
#[derive(Clone, Debug, PartialEq)]
pub struct Settings {
    pub tile_type: u8,
    pub tile_compression: u8,
    pub internal_compression: u8,
    pub zooms: [u8; 3],
    pub coords: [f64; 6],
}

pub fn settings_of<T>(pm: &PMTiles<T>) -> Settings {
    Settings {
        tile_type: gen::ttype_code(pm.tile_type),
        tile_compression: gen::comp_code(pm.tile_compression),
        internal_compression: gen::comp_code(pm.internal_compression),
        zooms: [pm.min_zoom, pm.max_zoom, pm.center_zoom],
        coords: [
            pm.min_longitude,
            pm.min_latitude,
            pm.max_longitude,
            pm.max_latitude,
            pm.center_longitude,
            pm.center_latitude,
        ],
    }
}

pub fn stored_coords(h: &RHeader) -> [i32; 6] {
    [h.min_lon, h.min_lat, h.max_lon, h.max_lat, h.center_lon, h.center_lat]
}

/// Compare what an opened archive reports with a logical archive (the caller's own map + settings).
/// `stored` = coordinates of the written header as parsed by the reference. Returns the first
/// discrepancy.
pub fn compare_open_sync<T: Read + Seek>(
    pm: &mut PMTiles<T>,
    l: &Logical,
    stored: Option<[i32; 6]>,
    probes: &[u64],
) -> Result<(), String> {
    if pm.num_tiles() != l.tiles.len() {
        return Err(format!("num_tiles {} != {}", pm.num_tiles(), l.tiles.len()));
    }
    let mut ids: Vec<u64> = pm.tile_ids().into_iter().copied().collect();
    ids.sort_unstable();
    let want: Vec<u64> = l.tiles.keys().copied().collect();
    if ids != want {
        let missing: Vec<&u64> = want.iter().filter(|i| ids.binary_search(i).is_err()).take(3).collect();
        let extra: Vec<&u64> = ids.iter().filter(|i| want.binary_search(i).is_err()).take(3).collect();
        return Err(format!(
            "tile id listing differs: {} listed vs {} added; missing {:?} extra {:?}",
            ids.len(),
            want.len(),
            missing,
            extra
        ));
    }
    for (id, c) in &l.tiles {
        match pm.get_tile_by_id(*id) {
            Ok(Some(b)) if b == **c => {}
            Ok(Some(b)) => {
                return Err(format!(
                    "tile {id}: content differs (got {} bytes, added {} bytes)",
                    b.len(),
                    c.len()
                ))
            }
            Ok(None) => return Err(format!("tile {id}: reported missing")),
            Err(e) => return Err(format!("tile {id}: error {e}")),
        }
    }
    for id in probes {
        if l.tiles.contains_key(id) {
            continue;
        }
        match pm.get_tile_by_id(*id) {
            Ok(None) => {}
            Ok(Some(_)) => return Err(format!("tile {id} was never added but a content is returned")),
            Err(e) => return Err(format!("absent tile {id}: error {e}")),
        }
    }
    let s = settings_of(pm);
    compare_settings(&s, l, stored)?;
    if pm.meta_data != l.meta {
        return Err(format!(
            "metadata differs: got {} expected {}",
            short(&serde_json::to_string(&pm.meta_data).unwrap_or_default()),
            short(&serde_json::to_string(&l.meta).unwrap_or_default())
        ));
    }
    Ok(())
}

pub fn short(s: &str) -> String {
    if s.len() <= 200 {
        s.to_string()
    } else {
        let mut cut = 200;
        while !s.is_char_boundary(cut) {
            cut -= 1;
        }
        format!("{}…", &s[..cut])
    }
}

pub fn compare_settings(s: &Settings, l: &Logical, stored: Option<[i32; 6]>) -> Result<(), String> {
    if s.tile_type != l.tile_type {
        return Err(format!("tile_type {} != {}", s.tile_type, l.tile_type));
    }
    if s.tile_compression != l.tile_compression {
        return Err(format!("tile_compression {} != {}", s.tile_compression, l.tile_compression));
    }
    if s.internal_compression != l.internal_compression {
        return Err(format!(
            "internal_compression {} != {}",
            s.internal_compression, l.internal_compression
        ));
    }
    if s.zooms != [l.min_zoom, l.max_zoom, l.center_zoom] {
        return Err(format!("zooms {:?} != {:?}", s.zooms, [l.min_zoom, l.max_zoom, l.center_zoom]));
    }
    const NAMES: [&str; 6] = ["min_lon", "min_lat", "max_lon", "max_lat", "center_lon", "center_lat"];
    for i in 0..6 {
        if let Some(st) = stored {
            if !gen::coord_nearest(l.coords[i], st[i]) {
                return Err(format!(
                    "coordinate {}: set {:?} stored as {} which is not the nearest multiple of 1e-7",
                    NAMES[i], l.coords[i], st[i]
                ));
            }
            if !gen::coord_denotes(s.coords[i], st[i]) {
                return Err(format!(
                    "coordinate {}: stored {} read back as {:?}",
                    NAMES[i], st[i], s.coords[i]
                ));
            }
        } else if (s.coords[i] * 1e7 - l.coords[i] * 1e7).abs() > 0.5 + 1e-5 {
            return Err(format!(
                "coordinate {}: set {:?} read back as {:?} (not the nearest multiple of 1e-7)",
                NAMES[i], l.coords[i], s.coords[i]
            ));
        }
    }
    Ok(())
}

/// IDs to probe for absence: neighbours of present ids, zoom block edges, random ids.
pub fn absent_probes(l: &Logical, rng: &mut crate::rng::Rng, max: usize) -> Vec<u64> {
    let mut v = Vec::new();
    let step = (l.tiles.len() / (max / 4).max(1)).max(1);
    for id in l.tiles.keys().step_by(step) {
        v.push(id.wrapping_add(1));
        if *id > 0 {
            v.push(id - 1);
        }
    }
    for z in 0..=32u8 {
        let b = R::zoom_base(z);
        v.push(b);
        v.push(b.wrapping_sub(1));
    }
    for _ in 0..32 {
        v.push(rng.next());
        v.push(rng.below(gen::id_domain()));
    }
    v.push(u64::MAX);
    v.push(0);
    v.retain(|i| !l.tiles.contains_key(i));
    v.sort_unstable();
    v.dedup();
    v
}

pub fn mat_logical(l: &Logical) -> Value {
    l.describe()
}

pub fn inst_reader(bytes: &[u8]) -> Inst {
    Inst::recording(bytes.to_vec())
}

/// Full observable content of an opened archive (sync): id -> bytes.
pub fn dump_sync<T: Read + Seek>(pm: &mut PMTiles<T>) -> Result<BTreeMap<u64, Vec<u8>>, String> {
    let ids: Vec<u64> = pm.tile_ids().into_iter().copied().collect();
    let mut m = BTreeMap::new();
    for id in ids {
        match pm.get_tile_by_id(id) {
            Ok(Some(b)) => {
                m.insert(id, b);
            }
            Ok(None) => return Err(format!("listed id {id} has no tile")),
            Err(e) => return Err(format!("listed id {id}: {e}")),
        }
    }
    Ok(m)
}

pub fn dump_async<T>(pm: &mut PMTiles<T>) -> Result<BTreeMap<u64, Vec<u8>>, String>
where
    T: futures::AsyncRead + futures::AsyncReadExt + Send + Unpin + futures::AsyncSeekExt,
{
    let ids: Vec<u64> = pm.tile_ids().into_iter().copied().collect();
    let mut m = BTreeMap::new();
    for id in ids {
        match block_on(pm.get_tile_by_id_async(id)) {
            Ok(Some(b)) => {
                m.insert(id, b);
            }
            Ok(None) => return Err(format!("listed id {id} has no tile")),
            Err(e) => return Err(format!("listed id {id}: {e}")),
        }
    }
    Ok(m)
}

pub fn ids_sample(ids: &[u64]) -> Value {
    json!(ids.iter().take(10).collect::<Vec<_>>())
}

pub fn strict_opts() -> R::ValidateOpts {
    R::ValidateOpts {
        allow_empty_metadata: false,
        strict_counters: true,
        pointer_is_first_id: true,
        strict_consumed: true,
    }
}

/// The independent reader's verdict on library-written bytes: well-formed per the C02 clauses AND
/// addressing exactly the logical content. `lookup_probes`: ids looked up with the spec procedure.
pub fn verify_archive_bytes(bytes: &[u8], l: &Logical, lookup_probes: &[u64]) -> Result<R::Validated, String> {
    let v = R::validate(bytes, &strict_opts())?;
    if v.abs.len() != l.tiles.len() {
        return Err(format!("directories address {} tiles, {} were added", v.abs.len(), l.tiles.len()));
    }
    for ((id, (off, len)), (lid, c)) in v.abs.iter().zip(l.tiles.iter()) {
        if id != lid {
            return Err(format!("directories address tile {id} where tile {lid} was added"));
        }
        let a = *off as usize;
        let b = a + *len as usize;
        if b > bytes.len() || bytes[a..b] != c[..] {
            return Err(format!("tile {id}: addressed bytes [{a},{b}) differ from the content added"));
        }
    }
    if v.metadata != l.meta {
        return Err(String::from("metadata section does not hold the metadata that was set"));
    }
    let h = &v.header;
    if h.tile_type != l.tile_type || h.tile_compression != l.tile_compression || h.internal_compression != l.internal_compression {
        return Err(format!(
            "header enum fields ({},{},{}) differ from settings ({},{},{})",
            h.tile_type, h.tile_compression, h.internal_compression, l.tile_type, l.tile_compression, l.internal_compression
        ));
    }
    if [h.min_zoom, h.max_zoom, h.center_zoom] != [l.min_zoom, l.max_zoom, l.center_zoom] {
        return Err(String::from("header zoom fields differ from settings"));
    }
    let st = stored_coords(h);
    for i in 0..6 {
        if !gen::coord_nearest(l.coords[i], st[i]) {
            return Err(format!("coordinate slot {i}: {:?} stored as {}", l.coords[i], st[i]));
        }
    }
    for id in lookup_probes {
        let got = R::lookup(bytes, h, *id)?;
        let want = l.tiles.get(id).map(|c| c.as_ref().clone());
        if got != want {
            return Err(format!(
                "specification lookup of tile {id} returns {:?} bytes, expected {:?}",
                got.map(|g| g.len()),
                want.map(|w| w.len())
            ));
        }
    }
    Ok(v)
}

/// A spread of ids for the spec lookup: present ones (strided) + absent probes.
pub fn lookup_probes(l: &Logical, rng: &mut crate::rng::Rng, max_present: usize) -> Vec<u64> {
    let step = (l.tiles.len() / max_present.max(1)).max(1);
    let mut v: Vec<u64> = l.tiles.keys().copied().step_by(step).collect();
    if let Some(last) = l.tiles.keys().next_back() {
        v.push(*last);
    }
    v.extend(absent_probes(l, rng, 40));
    v
}

/// The schedule of logical-archive classes shared by C01/C02/C10/C12/C16: index -> (class, codec).
pub fn logical_for(ctx: &crate::obs::Ctx, label: &str, i: u64) -> Logical {
    let mut rng = ctx.rng(label, i);
    let codec = R::CODECS[(i % 4) as usize];
    // two leaf-spilling archives per codec in every 128 cases (quick: 600 cases -> ~5 per codec)
    let class = match (i / 4) % 32 {
        0 => gen::SizeClass::Empty,
        1 | 2 => gen::SizeClass::One,
        3 => gen::SizeClass::Spill,
        4 if (i / 128) % 2 == 0 => gen::SizeClass::HugeRegular,
        5 if (i / 128) % 4 == 1 => gen::SizeClass::HugeTiles,
        4..=8 => gen::SizeClass::Medium,
        _ => gen::SizeClass::Small,
    };
    let mut l = gen::gen_logical(&mut rng, class, codec);
    // cycle deterministically through all tile types and tile compressions
    l.tile_type = ((i / 4) % 6) as u8;
    l.tile_compression = ((i / 24) % 5) as u8;
    l
}

/// Library calls that FAIL, made on the calling thread right before a call under observation: whatever an error path
/// leaves behind (scratch buffers, thread-locals, statics) must not show in the next call.
/// `sample`: bytes of a valid archive (cut and damaged copies of it are opened), if there is one at hand.
pub fn failing_calls_before(rng: &mut crate::rng::Rng, sample: Option<&[u8]>) {
    use crate::obs::guard;
    // codec-free under Miri
    let codec_free = crate::hostile::NO_ZSTD.load(std::sync::atomic::Ordering::Relaxed);
    let pick_codec = |rng: &mut crate::rng::Rng, lo: usize| if codec_free { pmtiles2::Compression::None } else { crate::gen::comp(R::CODECS[rng.usize(lo, 3)]) };
    // 1. writes that fail part-way: into a stream that starts failing after a few operations, and into a too-small slice
    let mut pm = PMTiles::new(pmtiles2::TileType::Png, pmtiles2::Compression::None);
    pm.internal_compression = pick_codec(rng, 0);
    for k in 0..40u64 {
        let _ = pm.add_tile(1000 + k * 3, vec![(k % 251) as u8 + 1; 5 + (k % 7) as usize]);
    }
    pm.meta_data.insert(String::from("left-behind"), Value::String(String::from("from a failed write")));
    let mut sink = Inst::new(Vec::new());
    sink.c.fail_from = Some(rng.range(1, 12));
    let _ = guard(|| pm.to_writer(&mut sink));
    // (no codec here: a sink that answers Ok(0) makes flate2's GzEncoder::write_header spin forever -- a zero-length
    // transfer is outside C13's "transfers >= 1" and is not an error in the sense of C15, so it is not exercised with a codec)
    let mut pm2 = PMTiles::new(pmtiles2::TileType::Png, pmtiles2::Compression::None);
    pm2.internal_compression = pmtiles2::Compression::None;
    for k in 0..40u64 {
        let _ = pm2.add_tile(5000 + k, vec![0xEEu8; 9]);
    }
    let mut small = [0u8; 160];
    let _ = guard(|| pm2.to_writer(&mut std::io::Cursor::new(&mut small[..])));
    let d = pmtiles2::Directory::from(vec![pmtiles2::Entry { tile_id: 1, offset: 0, length: 0, run_length: 1 }]);
    let _ = guard(|| d.to_writer(&mut Vec::new(), if codec_free { pmtiles2::Compression::None } else { pmtiles2::Compression::GZip }));
    // directory writers that fail AFTER something was serialised: a refused entry in the middle of a list, a sink that fails,
    // a sink that is too small (sync and async, directory and directory-tree writer)
    let mut list: Vec<pmtiles2::Entry> = (0..60u64).map(|k| pmtiles2::Entry { tile_id: 7 + k * 2, offset: k * 11, length: 11, run_length: 1 }).collect();
    let good = pmtiles2::Directory::from(list.clone());
    for comp in [pmtiles2::Compression::None, pick_codec(rng, 1)] {
        let mut failing = Inst::new(Vec::new());
        failing.c.fail_from = Some(0);
        let _ = guard(|| good.to_writer(&mut failing, comp));
        let mut afailing = AInst::new(Vec::new());
        afailing.c.fail_from = Some(0);
        let _ = guard(|| block_on(good.to_async_writer(&mut afailing, comp)));
        if comp == pmtiles2::Compression::None {
            let mut tiny = [0u8; 40];
            let _ = guard(|| good.to_writer(&mut std::io::Cursor::new(&mut tiny[..]), comp));
        }
        let mut failing = Inst::new(Vec::new());
        failing.c.fail_from = Some(0);
        let _ = guard(|| pmtiles2::util::write_directories(&mut failing, &list, comp, None).map(|v| v.len()));
    }
    list[37].length = 0;
    let bad = pmtiles2::Directory::from(list.clone());
    let _ = guard(|| bad.to_writer(&mut Vec::new(), pmtiles2::Compression::None));
    let _ = guard(|| block_on(bad.to_async_writer(&mut futures::io::Cursor::new(Vec::new()), if codec_free { pmtiles2::Compression::None } else { pmtiles2::Compression::GZip })));
    let _ = guard(|| pmtiles2::util::write_directories(&mut std::io::Cursor::new(Vec::new()), &list, pmtiles2::Compression::None, None).map(|v| v.len()));
    // 2. opens and parses that fail: cut / damaged copies of a valid archive
    if let Some(b) = sample {
        if let Ok(h) = R::header_unpack(b) {
            let dir_end = (h.root_offset + h.root_length).max(h.leaf_offset + h.leaf_length) as usize;
            for cut in [dir_end.saturating_sub(1), dir_end.saturating_sub(rng.usize(2, 40)), (h.root_offset + h.root_length / 2) as usize] {
                if cut > 127 && cut < b.len() {
                    let _ = guard(|| PMTiles::from_bytes(b[..cut].to_vec()).map(|p| p.num_tiles()));
                }
            }
            if h.root_length > 4 {
                let mut bad = b.to_vec();
                let at = (h.root_offset + h.root_length - 2) as usize;
                if at < bad.len() {
                    bad[at] ^= 0x7f;
                    // (a flipped byte can turn a run length into hundreds of millions of tiles, which the library expands by design:
                    // only damaged copies whose directories stay within the expansion budget of C08 are opened)
                    if !crate::hostile::estimate(&bad).capped {
                        let _ = guard(|| PMTiles::from_bytes(bad).map(|p| p.num_tiles()));
                    }
                }
                let (a, e) = (h.root_offset as usize, (h.root_offset + h.root_length) as usize);
                if e <= b.len() && (1..=4).contains(&h.internal_compression) {
                    let comp = crate::gen::comp(h.internal_compression);
                    let _ = guard(|| pmtiles2::Directory::from_bytes(&b[a..e - 1], comp).map(|d| d.len()));
                    let _ = guard(|| pmtiles2::util::decompress_all(comp, &b[a..e - 1]).map(|v| v.len()));
                }
            }
        }
    }
}
