pub mod arch;
pub mod common;

pub mod c01;
pub mod c02;
pub mod c03;
pub mod c04;
pub mod c05;
pub mod c06;
pub mod c07;
pub mod c08;
pub mod c09;
pub mod c10;
pub mod c11;
pub mod c12;
pub mod c12_support;
pub mod c13;
pub mod c14;
pub mod c15;
pub mod c16;
pub mod c17;
pub mod c18;
pub mod c19;
pub mod c20;

use crate::obs::Ctx;

pub fn run(check: &str, ctx: &mut Ctx) -> bool {
    // the Miri layers are codec-free (Miri cannot enter zstd's C code, and the Rust codecs are far too slow under it)
    if ctx.sub == "miri" {
        crate::hostile::NO_ZSTD.store(true, std::sync::atomic::Ordering::Relaxed);
    }
    match check {
        "c01" => c01::run(ctx),
        "c02" => c02::run(ctx),
        "c03" => c03::run(ctx),
        "c04" => c04::run(ctx),
        "c05" => c05::run(ctx),
        "c06" => c06::run(ctx),
        "c07" => c07::run(ctx),
        "c08" => c08::run(ctx),
        "c09" => c09::run(ctx),
        "c10" => c10::run(ctx),
        "c11" => c11::run(ctx),
        "c12" => c12::run(ctx),
        "c13" => c13::run(ctx),
        "c14" => c14::run(ctx),
        "c15" => c15::run(ctx),
        "c16" => c16::run(ctx),
        "c17" => c17::run(ctx),
        "c18" => c18::run(ctx),
        "c19" => c19::run(ctx),
        "c20" => c20::run(ctx),
        _ => return false,
    }
    true
}

/// Self-test of the reference implementation against known values from the specification.
pub fn selftest() -> Result<(), String> {
    use crate::refimpl as R;
    // known Hilbert ids (PMTiles spec / upstream test vectors)
    let known: [((u8, u64, u64), u64); 9] = [
        ((0, 0, 0), 0),
        ((1, 0, 0), 1),
        ((1, 0, 1), 2),
        ((1, 1, 1), 3),
        ((1, 1, 0), 4),
        ((2, 0, 0), 5),
        ((12, 3423, 1763), 19_078_479),
        ((3, 0, 0), 21),
        ((31, 0, 0), 1_537_228_672_809_129_301),
    ];
    for ((z, x, y), id) in known {
        if R::zxy_to_id(z, x, y) != id {
            return Err(format!("reference zxy_to_id({z},{x},{y}) = {} != {id}", R::zxy_to_id(z, x, y)));
        }
        if R::id_to_zxy(id) != Some((z, x, y)) {
            return Err(format!("reference id_to_zxy({id}) wrong"));
        }
    }
    // varint / directory self-consistency
    let mut rng = crate::rng::Rng::new(11);
    for _ in 0..200 {
        let n = rng.usize(0, 50);
        let l = crate::gen::gen_entries(&mut rng, n, true, true);
        let b = R::dir_encode(&l);
        let (d, used) = R::dir_decode(&b)?;
        if d != l || used != b.len() {
            return Err(String::from("reference directory codec not self-consistent"));
        }
        for c in R::CODECS {
            let p = R::CodecParams::random(&mut rng);
            let z = R::codec_compress(c, &b, &p)?;
            let mut padded = z.clone();
            padded.extend_from_slice(&[1, 2, 3]);
            let (back, used) = R::codec_decompress_consumed(c, &padded, 1 << 20)?;
            if c != R::C_NONE && (back != b || used != z.len()) {
                return Err(format!("reference codec {} consumed {used} of {} bytes", R::codec_name(c), z.len()));
            }
        }
    }
    // panic attribution: a panic raised in harness code is a harness error, one raised inside the crate under
    // test (here: indexing an empty Directory) is an observation about the library
    {
        crate::obs::install_panic_hook();
        let h = crate::obs::guard(|| {
            let v: Vec<u8> = Vec::new();
            let i = std::hint::black_box(3usize);
            v[i]
        });
        match h {
            Err(p) if p.harness => {}
            other => return Err(format!("harness panic not attributed to the harness: {:?}", other.err().map(|p| (p.harness, p.file)))),
        }
        let l = crate::obs::guard(|| {
            // descending tile ids: the delta computation inside the library's serialiser underflows
            let e = |id: u64| pmtiles2::Entry { tile_id: id, offset: 0, length: 1, run_length: 1 };
            let d = pmtiles2::Directory::from(vec![e(9), e(2)]);
            let mut out = Vec::new();
            d.to_writer(&mut out, pmtiles2::Compression::None).is_ok()
        });
        match l {
            Err(p) if !p.harness => {}
            other => return Err(format!("library panic not attributed to the library: {:?}", other.err().map(|p| (p.harness, p.file)))),
        }
        // a panic whose reported location lies in std (capacity overflow raised by Vec::with_capacity) but which is
        // raised on behalf of library code must be attributed through the backtrace
        let c = crate::obs::guard(|| {
            let n = std::hint::black_box(usize::MAX / 2);
            pmtiles2::Directory::from(Vec::with_capacity(n)).len()
        });
        match c {
            Err(p) if p.harness => {} // raised by the harness' own Vec::with_capacity: harness
            other => return Err(format!("std-located harness panic not attributed to the harness: {:?}", other.err().map(|p| (p.harness, p.file)))),
        }
        let t = crate::obs::guard(|| pmtiles2::util::zxy(std::hint::black_box(5)).map(|_| pmtiles2::util::tile_id(std::hint::black_box(40), 1, 1)));
        match t {
            Err(p) if !p.harness => {} // 4u64.pow(32) overflows inside util::tile_id: location in core, frame in the library
            other => return Err(format!("std-located library panic not attributed to the library: {:?}", other.err().map(|p| (p.harness, p.file)))),
        }
        let _ = std::panic::take_hook();
    }
    // the independent JSON reader returns exactly what was serialised
    for i in 0..300 {
        let mut rng = crate::rng::Rng::new(5000 + i);
        let m = crate::gen::gen_metadata(&mut rng);
        let text = serde_json::to_vec(&m).map_err(|e| e.to_string())?;
        let back = R::json_parse(&text)?;
        if back != serde_json::Value::Object(m) {
            return Err(format!("independent JSON reader disagrees on {}", String::from_utf8_lossy(&text)));
        }
    }
    // foreign archives must be accepted by the reference validator
    for i in 0..60 {
        let mut rng = crate::rng::Rng::new(1000 + i);
        let o = crate::gen::gen_foreign_opts(&mut rng, R::CODECS[(i % 4) as usize], 2000);
        let f = crate::gen::gen_foreign(&mut rng, &o);
        let v = R::validate(
            &f.bytes,
            &R::ValidateOpts {
                allow_empty_metadata: true,
                strict_counters: false,
                pointer_is_first_id: true,
                strict_consumed: true,
            },
        )
        .map_err(|e| format!("foreign archive {i} ({}) rejected by reference validator: {e}", f.layout))?;
        if v.abs != f.truth {
            return Err(format!("foreign archive {i}: reference walk disagrees with ground truth"));
        }
    }
    Ok(())
}
