//! Generators: logical archives (write side), JSON metadata, valid entry lists, and the
//! independent spec-level ("foreign") archive writer with ground truth.

use crate::refimpl::{self as R, CodecParams, REntry, RHeader};
use crate::rng::{hash_bytes, hash_u64s, Rng};
use pmtiles2::{Compression, PMTiles, TileType};
use serde_json::{Map, Number, Value};
use std::collections::BTreeMap;
use std::io::Cursor;
use std::rc::Rc;

pub fn comp(c: u8) -> Compression {
    match c {
        1 => Compression::None,
        2 => Compression::GZip,
        3 => Compression::Brotli,
        4 => Compression::ZStd,
        _ => Compression::Unknown,
    }
}

pub fn comp_code(c: Compression) -> u8 {
    match c {
        Compression::Unknown => 0,
        Compression::None => 1,
        Compression::GZip => 2,
        Compression::Brotli => 3,
        Compression::ZStd => 4,
    }
}

pub fn ttype(c: u8) -> TileType {
    match c {
        1 => TileType::Mvt,
        2 => TileType::Png,
        3 => TileType::Jpeg,
        4 => TileType::WebP,
        5 => TileType::AVIF,
        _ => TileType::Unknown,
    }
}

pub fn ttype_code(t: TileType) -> u8 {
    match t {
        TileType::Unknown => 0,
        TileType::Mvt => 1,
        TileType::Png => 2,
        TileType::Jpeg => 3,
        TileType::WebP => 4,
        TileType::AVIF => 5,
    }
}

/// first id of zoom 32 = number of valid tile ids
pub fn id_domain() -> u64 {
    R::zoom_base(32)
}

// ------------------------------------------------------------------ JSON

fn json_string(rng: &mut Rng) -> String {
    const PIECES: [&str; 16] = [
        "a", "name", "", " ", "\"", "\\", "\n", "\t", "\u{0}", "\u{1f}", "é", "日本", "😀", "/", "\u{7f}", "\u{2028}",
    ];
    let n = rng.usize(0, 6);
    let mut s = String::new();
    for _ in 0..n {
        if rng.chance(1, 3) {
            s.push_str(PIECES[rng.usize(0, PIECES.len() - 1)]);
        } else {
            s.push((b'a' + rng.below(26) as u8) as char);
        }
    }
    s
}

fn json_number(rng: &mut Rng) -> Value {
    match rng.below(7) {
        0 => Value::Number(Number::from(rng.next())),
        1 => Value::Number(Number::from(rng.next() as i64)),
        2 => Value::Number(Number::from(rng.below(1000))),
        3 => {
            // arbitrary finite double, typically 17 significant digits
            loop {
                let f = f64::from_bits(rng.next());
                if f.is_finite() {
                    return Number::from_f64(f).map_or(Value::Null, Value::Number);
                }
            }
        }
        4 => Number::from_f64(rng.f64() * 360.0 - 180.0).map_or(Value::Null, Value::Number),
        5 => Number::from_f64((rng.below(2_000_000) as f64 - 1_000_000.0) / 1000.0)
            .map_or(Value::Null, Value::Number),
        _ => Value::Number(Number::from(*rng.pick(&[0u64, 1, u64::MAX, i64::MAX as u64, 1 << 53]))),
    }
}

pub fn json_value(rng: &mut Rng, depth: u32) -> Value {
    let leaf = depth == 0 || rng.chance(2, 5);
    if leaf {
        match rng.below(6) {
            0 => Value::Null,
            1 => Value::Bool(rng.chance(1, 2)),
            2 | 3 => json_number(rng),
            _ => Value::String(json_string(rng)),
        }
    } else if rng.chance(1, 2) {
        let n = rng.usize(0, 4);
        Value::Array((0..n).map(|_| json_value(rng, depth - 1)).collect())
    } else {
        Value::Object(json_object(rng, depth - 1, 4))
    }
}

pub fn json_object(rng: &mut Rng, depth: u32, max_keys: usize) -> Map<String, Value> {
    let n = rng.usize(0, max_keys);
    let mut m = Map::new();
    for _ in 0..n {
        m.insert(json_string(rng), json_value(rng, depth));
    }
    m
}

/// A chain nested `depth` levels deep (objects and arrays alternating).
pub fn json_deep(depth: u32) -> Map<String, Value> {
    let mut v = Value::Number(Number::from(1u64));
    for i in 0..depth {
        v = if i % 2 == 0 {
            Value::Array(vec![v])
        } else {
            let mut m = Map::new();
            m.insert(String::from("k"), v);
            Value::Object(m)
        };
    }
    let mut m = Map::new();
    m.insert(String::from("deep"), v);
    m
}

/// Large and poorly compressible: 70-400 KiB of random base64-like text in a few values
/// (more than any codec's internal block / window of 32, 64 or 128 KiB).
pub fn gen_metadata_large(rng: &mut Rng) -> Map<String, Value> {
    let mut m = Map::new();
    let total = rng.usize(70_000, 400_000);
    let parts = rng.usize(1, 4);
    for i in 0..parts {
        let n = total / parts;
        let s: String = (0..n)
            .map(|_| b"ABCDEFGHIJKLMNOPQRSTUVWXYZabcdefghijklmnopqrstuvwxyz0123456789+/"[rng.below(64) as usize] as char)
            .collect();
        m.insert(format!("blob{i}"), Value::String(s));
    }
    m.insert(String::from("name"), Value::String(json_string(rng)));
    m
}

pub fn gen_metadata(rng: &mut Rng) -> Map<String, Value> {
    match rng.below(12) {
        0 => Map::new(),
        10 => gen_metadata_large(rng),
        1 => json_deep(60),
        2 => {
            // many keys
            let mut m = Map::new();
            for i in 0..rng.usize(20, 200) {
                m.insert(format!("k{i}{}", json_string(rng)), json_value(rng, 2));
            }
            m
        }
        _ => json_object(rng, 6, 8),
    }
}

// ------------------------------------------------------------------ logical archives

#[derive(Clone, Debug)]
pub struct Logical {
    pub tiles: BTreeMap<u64, Rc<Vec<u8>>>,
    pub meta: Map<String, Value>,
    pub tile_type: u8,
    pub tile_compression: u8,
    pub internal_compression: u8,
    pub min_zoom: u8,
    pub max_zoom: u8,
    pub center_zoom: u8,
    /// min_lon, min_lat, max_lon, max_lat, center_lon, center_lat
    pub coords: [f64; 6],
    pub class: String,
}

impl Logical {
    pub fn fingerprint(&self) -> u64 {
        let mut v: Vec<u64> = Vec::with_capacity(self.tiles.len() * 2 + 16);
        for (id, c) in &self.tiles {
            v.push(*id);
            v.push(hash_bytes(c));
        }
        v.push(hash_bytes(serde_json::to_string(&self.meta).unwrap_or_default().as_bytes()));
        v.push(u64::from(self.tile_type) | u64::from(self.tile_compression) << 8 | u64::from(self.internal_compression) << 16);
        v.push(u64::from(self.min_zoom) | u64::from(self.max_zoom) << 8 | u64::from(self.center_zoom) << 16);
        for c in self.coords {
            v.push(c.to_bits());
        }
        hash_u64s(&v)
    }

    pub fn distinct_contents(&self) -> usize {
        let mut s: std::collections::HashSet<&[u8]> = std::collections::HashSet::new();
        for c in self.tiles.values() {
            s.insert(c.as_slice());
        }
        s.len()
    }

    pub fn has_duplicates(&self) -> bool {
        self.distinct_contents() < self.tiles.len()
    }

    pub fn describe(&self) -> Value {
        let ids: Vec<u64> = self.tiles.keys().take(8).copied().collect();
        serde_json::json!({
            "class": self.class,
            "tiles": self.tiles.len(),
            "distinct_contents": self.distinct_contents(),
            "first_ids": ids,
            "content_bytes": self.tiles.values().map(|c| c.len()).sum::<usize>(),
            "internal_compression": R::codec_name(self.internal_compression),
            "tile_compression": self.tile_compression,
            "tile_type": self.tile_type,
            "zooms": [self.min_zoom, self.max_zoom, self.center_zoom],
            "coords": self.coords,
            "metadata_keys": self.meta.len(),
        })
    }

    /// Build the archive through the public API, inserting tiles in the given order.
    pub fn build_with_order(&self, order: &[u64]) -> PMTiles<Cursor<&'static [u8]>> {
        let mut pm = PMTiles::new(ttype(self.tile_type), comp(self.tile_compression));
        self.apply_settings(&mut pm);
        for id in order {
            pm.add_tile(*id, self.tiles[id].as_ref().clone()).expect("add_tile non-empty");
        }
        pm
    }

    pub fn apply_settings<T>(&self, pm: &mut PMTiles<T>) {
        pm.tile_type = ttype(self.tile_type);
        pm.tile_compression = comp(self.tile_compression);
        pm.internal_compression = comp(self.internal_compression);
        pm.min_zoom = self.min_zoom;
        pm.max_zoom = self.max_zoom;
        pm.center_zoom = self.center_zoom;
        pm.min_longitude = self.coords[0];
        pm.min_latitude = self.coords[1];
        pm.max_longitude = self.coords[2];
        pm.max_latitude = self.coords[3];
        pm.center_longitude = self.coords[4];
        pm.center_latitude = self.coords[5];
        pm.meta_data = self.meta.clone();
    }

    pub fn build(&self) -> PMTiles<Cursor<&'static [u8]>> {
        let order: Vec<u64> = self.tiles.keys().copied().collect();
        self.build_with_order(&order)
    }

    /// The same logical archive reached through detours: shuffled insertion, some ids first bound
    /// to junk and then replaced, some ids re-added with the bytes they already hold (once while
    /// they are the only user of that content, once while it is shared), extra ids added and removed.
    pub fn build_messy(&self, rng: &mut Rng) -> PMTiles<Cursor<&'static [u8]>> {
        let mut pm = PMTiles::new(ttype(self.tile_type), comp(self.tile_compression));
        self.apply_settings(&mut pm);
        let mut ids: Vec<u64> = self.tiles.keys().copied().collect();
        rng.shuffle(&mut ids);
        let junk = vec![0xE1u8; 11];
        let extra: Vec<u64> = (0..4).map(|_| rng.below(id_domain())).filter(|x| !self.tiles.contains_key(x)).collect();
        for x in &extra {
            pm.add_tile(*x, junk.clone()).expect("add");
        }
        for (k, id) in ids.iter().enumerate() {
            if k % 7 == 3 {
                pm.add_tile(*id, junk.clone()).expect("add");
            }
            pm.add_tile(*id, self.tiles[id].as_ref().clone()).expect("add");
            if k % 5 == 1 {
                // re-add identical bytes right away
                pm.add_tile(*id, self.tiles[id].as_ref().clone()).expect("add");
            }
        }
        for id in ids.iter().step_by(9) {
            // re-add identical bytes at the end (content possibly shared by now)
            pm.add_tile(*id, self.tiles[id].as_ref().clone()).expect("add");
        }
        for x in &extra {
            pm.remove_tile(*x);
        }
        pm
    }

    pub fn build_async(&self) -> PMTiles<futures::io::Cursor<&'static [u8]>> {
        let mut pm = PMTiles::new_async(ttype(self.tile_type), comp(self.tile_compression));
        self.apply_settings(&mut pm);
        for (id, c) in &self.tiles {
            pm.add_tile(*id, c.as_ref().clone()).expect("add_tile non-empty");
        }
        pm
    }
}

/// A coordinate in degrees inside [-limit, limit], biased to hard cases.
pub fn gen_coord(rng: &mut Rng, limit: f64) -> f64 {
    let max_k = (limit * 1e7) as i64;
    let k = rng.range(0, 2 * max_k as u64) as i64 - max_k;
    match rng.below(8) {
        0 => *rng.pick(&[-limit, limit, 0.0, -0.0]),
        1 => k as f64 / 1e7, // exact multiple
        2 => {
            // half-step tie +- 1 ulp
            let v = (k as f64 + 0.5) / 1e7;
            let v = match rng.below(3) {
                0 => v,
                1 => f64::from_bits(v.to_bits().wrapping_add(1)),
                _ => f64::from_bits(v.to_bits().wrapping_sub(1)),
            };
            v.clamp(-limit, limit)
        }
        3 => (rng.below(2001) as f64 - 1000.0) * 1e-7, // tiny values around 0 (both signs)
        4 => (k as f64 / 1e7) * (1.0 + f64::EPSILON),
        _ => (rng.f64() * 2.0 - 1.0) * limit,
    }
}

pub fn gen_coords(rng: &mut Rng) -> [f64; 6] {
    [
        gen_coord(rng, 180.0),
        gen_coord(rng, 90.0),
        gen_coord(rng, 180.0),
        gen_coord(rng, 90.0),
        gen_coord(rng, 180.0),
        gen_coord(rng, 90.0),
    ]
}

#[derive(Clone, Copy, Debug, PartialEq, Eq)]
pub enum SizeClass {
    Empty,
    One,
    Small,
    Medium,
    /// enough high-entropy entries to overflow the 16 KiB root with every codec
    Spill,
    /// 66k-140k tiles on consecutive ids alternating between a few short contents: more than 2^16
    /// entries that still compress into a single root directory
    HugeRegular,
    /// a handful of tiles whose contents exceed 1 MiB (sometimes 2^24 bytes): two of equal length that
    /// differ only in the middle, plus exact duplicates of one of them under other ids
    HugeTiles,
}

fn content_pool(rng: &mut Rng, n: usize, max_len: u64, budget: usize) -> Vec<Rc<Vec<u8>>> {
    let mut pool: Vec<Rc<Vec<u8>>> = Vec::with_capacity(n);
    let mut used = 0usize;
    for i in 0..n {
        let left = budget.saturating_sub(used).max(1);
        let c: Vec<u8> = if i > 0 && max_len >= 100_000 && left > 200_000 && rng.chance(1, 6) {
            // collision bait for sampled / truncated content hashes: a LARGE content that equals an earlier one
            // except for one byte in the middle (same length, same first and last 16 KiB), or only the
            // first / last byte
            let bi = (0..i).rev().find(|j| pool[*j].len() >= 40_000);
            let mut c = match bi {
                Some(j) => pool[j].as_ref().clone(),
                None => {
                    let n = rng.usize(40_000, 90_000);
                    rng.bytes(n)
                }
            };
            let at = match rng.below(4) {
                0 => 0,
                1 => c.len() - 1,
                _ => c.len() / 2 + rng.usize(0, 64),
            };
            if bi.is_some() {
                c[at] ^= 0x01;
            }
            c
        } else if i > 0 && rng.chance(1, 5) {
            // near-duplicate: same length, one byte differs / shared prefix
            let base = pool[rng.usize(0, i - 1)].as_ref().clone();
            let mut c = base;
            match rng.below(3) {
                0 => {
                    let at = rng.usize(0, c.len() - 1);
                    c[at] = c[at].wrapping_add(1);
                }
                1 => {
                    let last = c.len() - 1;
                    c[last] ^= 0x80;
                }
                _ => c.push(rng.next() as u8),
            }
            c
        } else {
            let len = (rng.log_range(1, max_len) as usize).min(left);
            match rng.below(4) {
                0 => vec![rng.next() as u8; len],
                _ => rng.bytes(len),
            }
        };
        used += c.len();
        pool.push(Rc::new(c));
    }
    // make sure all pool items are distinct contents
    let mut seen = std::collections::HashSet::new();
    for (i, c) in pool.iter_mut().enumerate() {
        while !seen.insert(c.as_ref().clone()) {
            let mut v = c.as_ref().clone();
            v.extend_from_slice(&(i as u32).to_le_bytes());
            *c = Rc::new(v);
        }
    }
    pool
}

fn gen_ids(rng: &mut Rng, n: usize) -> Vec<u64> {
    let dom = id_domain();
    let mut ids: Vec<u64> = Vec::with_capacity(n);
    if n == 0 {
        return ids;
    }
    match rng.below(6) {
        0 => ids.extend(0..n as u64), // dense from 0
        1 => {
            // dense block at a random zoom
            let z = rng.range(1, 31) as u8;
            let base = R::zoom_base(z);
            let span = R::zoom_base(z + 1) - base;
            let start = base + rng.below(span.saturating_sub(n as u64).max(1));
            ids.extend((start..start.saturating_add(n as u64)).take_while(|i| *i < dom));
        }
        2 => {
            // runs with gaps
            let mut cur = rng.below(1000);
            while ids.len() < n {
                let run = rng.usize(1, 12).min(n - ids.len());
                for _ in 0..run {
                    ids.push(cur);
                    cur += 1;
                }
                cur += rng.log_range(1, 1 << 20);
            }
        }
        3 => {
            // sparse over the whole valid domain, including 0 and the largest valid id
            let mut set = std::collections::BTreeSet::new();
            set.insert(0);
            set.insert(dom - 1);
            while set.len() < n.max(2) {
                set.insert(rng.below(dom));
            }
            ids.extend(set.into_iter().take(n));
        }
        4 => {
            // around zoom block edges
            let mut set = std::collections::BTreeSet::new();
            while set.len() < n {
                let z = rng.range(1, 32) as u8;
                let b = R::zoom_base(z);
                let d = rng.below(6);
                let v = if rng.chance(1, 2) { b.saturating_add(d) } else { b.saturating_sub(d + 1) };
                if v < dom {
                    set.insert(v);
                } else {
                    set.insert(rng.below(1 << 20));
                }
            }
            ids.extend(set);
        }
        _ => {
            // high-entropy deltas (good for overflowing the root directory)
            let mut cur = rng.below(1 << 16);
            for _ in 0..n {
                ids.push(cur);
                cur += rng.log_range(1, 1 << 22);
            }
        }
    }
    ids.sort_unstable();
    ids.dedup();
    ids.retain(|i| *i < dom);
    ids
}

/// A handful of tiles, two of them `len` bytes long (equal length, same first / last 64 KiB, different middle),
/// exact duplicates of one of them under other ids, and small tiles in between and behind.
pub fn gen_huge_tiles(rng: &mut Rng, internal: u8, len: usize) -> Logical {
    let a = rng.bytes(len);
    let mut b = a.clone();
    b[len / 2 + rng.usize(0, 100)] ^= 0x10;
    let (a, b) = (Rc::new(a), Rc::new(b));
    let small_len = rng.usize(1, 50);
    let small = Rc::new(rng.bytes(small_len));
    let mut tiles = BTreeMap::new();
    let base = rng.below(1 << 30);
    tiles.insert(base, a.clone());
    tiles.insert(base + 1, small.clone());
    tiles.insert(base + 3, b);
    tiles.insert(base + 4, a.clone()); // duplicate of the first huge content, not adjacent
    tiles.insert(base + 9, small);
    tiles.insert(base + 10, a);
    Logical {
        tiles,
        meta: gen_metadata(rng),
        tile_type: rng.below(6) as u8,
        tile_compression: rng.below(5) as u8,
        internal_compression: internal,
        min_zoom: rng.next() as u8,
        max_zoom: rng.next() as u8,
        center_zoom: rng.next() as u8,
        coords: gen_coords(rng),
        class: format!("HugeTiles/{len}"),
    }
}

pub fn gen_logical(rng: &mut Rng, class: SizeClass, internal: u8) -> Logical {
    let (n, max_len, budget): (usize, u64, usize) = match class {
        SizeClass::Empty => (0, 1, 1),
        SizeClass::One => (1, 100 * 1024, 200 * 1024),
        SizeClass::Small => (rng.usize(2, 50), 100 * 1024, 2 << 20),
        SizeClass::Medium => (rng.usize(1000, 5000), 4096, 8 << 20),
        SizeClass::Spill => {
            // half of the spilling archives hold k*4096 + r entries for small / extreme r (leaf chunking edge cases)
            let n = if rng.chance(1, 2) {
                rng.usize(5, 14) * 4096 + *rng.pick(&[0usize, 1, 2, 31, 63, 64, 100, 4095])
            } else {
                rng.usize(20_000, 60_000)
            };
            (n, 48, 8 << 20)
        }
        SizeClass::HugeRegular | SizeClass::HugeTiles => (0, 1, 1),
    };
    if class == SizeClass::HugeTiles {
        let len = if rng.chance(1, 4) { (1usize << 24) + rng.usize(1, 5000) } else { (1usize << 20) + rng.usize(1, 70_000) };
        return gen_huge_tiles(rng, internal, len);
    }
    if class == SizeClass::HugeRegular {
        let n = *rng.pick(&[65_535u64, 65_536, 65_537, 70_000, 100_000, 131_073]);
        let k = rng.usize(2, 3);
        let len = rng.usize(8, 40);
        let pool: Vec<Rc<Vec<u8>>> = (0..k)
            .map(|j| {
                let mut c = rng.bytes(len);
                c[0] = j as u8;
                Rc::new(c)
            })
            .collect();
        let start = rng.below(1 << 20);
        let mut tiles = BTreeMap::new();
        for i in 0..n {
            // strictly alternating: no two neighbours merge into a run
            tiles.insert(start + i, pool[(i as usize) % k].clone());
        }
        return Logical {
            tiles,
            meta: gen_metadata(rng),
            tile_type: rng.below(6) as u8,
            tile_compression: rng.below(5) as u8,
            internal_compression: internal,
            min_zoom: rng.next() as u8,
            max_zoom: rng.next() as u8,
            center_zoom: rng.next() as u8,
            coords: gen_coords(rng),
            class: format!("HugeRegular/{n}"),
        };
    }
    let ids = if class == SizeClass::Spill {
        // high entropy ids so that every codec overflows 16 KiB
        let mut cur = rng.below(1 << 10);
        let mut v = Vec::with_capacity(n);
        for _ in 0..n {
            v.push(cur);
            cur += 1 + rng.log_range(1, 1 << 18);
        }
        v
    } else {
        gen_ids(rng, n)
    };
    let dup_mode = rng.below(7);
    let pool_n = match (class, dup_mode) {
        (SizeClass::Spill, _) => ids.len(), // mostly unique contents (entropy in lengths)
        (_, 0) => ids.len().max(1),         // all unique
        (_, 1) => 1,                        // everything identical
        (_, 2) => 2,                        // A/B
        _ => (ids.len() / 3).max(1),
    };
    let mut pool = content_pool(rng, pool_n.max(1), max_len, budget);
    let mut ids = ids;
    if dup_mode == 5 && class != SizeClass::Spill && !ids.is_empty() {
        // equal-length pool on a dense id block: runs, back-references and contents whose offsets
        // are exact multiples of the common length apart (hard cases for offset elision / run merging)
        let len = rng.usize(1, 40);
        let k = rng.usize(3, 6);
        pool = (0..k)
            .map(|j| {
                let mut c = rng.bytes(len);
                c[0] = j as u8;
                Rc::new(c)
            })
            .collect();
        let start = if rng.chance(1, 2) { rng.below(1 << 20) } else { R::zoom_base(rng.range(2, 20) as u8) - 2 };
        ids = (start..start + ids.len() as u64).collect();
    }
    if dup_mode == 6 && class != SizeClass::Spill && !ids.is_empty() {
        // a short run of one content, and the same content again exactly run + k*2^32 ids after the run's
        // start with nothing in between (id distances that alias under 32-bit arithmetic)
        let p = rng.below(1 << 28);
        let r = rng.range(1, 4);
        let k = rng.range(1, 3);
        let q = p + r + (k << 32);
        ids = (p..p + r).collect();
        ids.push(q);
        ids.push(q + 1 + rng.below(3));
        ids.push(q + (1 << 32));
        pool = content_pool(rng, 2, 64, 4096);
    }
    let mut tiles = BTreeMap::new();
    let mut prev_pick = 0usize;
    for (i, id) in ids.iter().enumerate() {
        let c = if class == SizeClass::Spill {
            if rng.chance(1, 20) && i > 0 {
                pool[rng.usize(0, i - 1)].clone()
            } else {
                pool[i].clone()
            }
        } else {
            match dup_mode {
                0 => pool[i % pool.len()].clone(),
                1 => pool[0].clone(),
                2 => pool[i % 2 % pool.len()].clone(), // alternating A/B/A/B
                3 => {
                    // duplicates in runs
                    let k = (i / 3) % pool.len();
                    pool[k].clone()
                }
                5 => {
                    if !rng.chance(1, 2) {
                        prev_pick = rng.usize(0, pool.len() - 1);
                    }
                    pool[prev_pick].clone()
                }
                6 => {
                    // run and its far twin share pool[0]; the two ids behind the twin get pool[1] / pool[0]
                    let nrun = ids.len() - 3;
                    if i < nrun || i == nrun || i == nrun + 2 {
                        pool[0].clone()
                    } else {
                        pool[1 % pool.len()].clone()
                    }
                }
                _ => pool[rng.usize(0, pool.len() - 1)].clone(),
            }
        };
        tiles.insert(*id, c);
    }
    let zooms = [rng.next() as u8, rng.next() as u8, rng.next() as u8];
    let zooms = if rng.chance(1, 4) { [0, 255, 128] } else { zooms };
    Logical {
        tiles,
        meta: gen_metadata(rng),
        tile_type: rng.below(6) as u8,
        tile_compression: rng.below(5) as u8,
        internal_compression: internal,
        min_zoom: zooms[0],
        max_zoom: zooms[1],
        center_zoom: zooms[2],
        coords: gen_coords(rng),
        class: format!("{class:?}/dup{dup_mode}"),
    }
}

/// Is the read-back coordinate `v` the value that denotes the stored integer `stored`?
pub fn coord_denotes(v: f64, stored: i32) -> bool {
    if !v.is_finite() {
        return false;
    }
    let exact = f64::from(stored) / 1e7;
    let ulp = (exact.abs() * f64::EPSILON).max(f64::MIN_POSITIVE);
    (v * 1e7).round() == f64::from(stored) && (v - exact).abs() <= 2.0 * ulp
}

/// Is `stored` a nearest multiple of 1e-7 to `set` (either neighbour on a true tie)?
pub fn coord_nearest(set: f64, stored: i32) -> bool {
    (set * 1e7 - f64::from(stored)).abs() <= 0.5 + 1e-6
}

// ------------------------------------------------------------------ valid entry lists

/// Random valid directory (strictly ascending ids, non-overlapping runs, lengths >= 1).
pub fn gen_entries(rng: &mut Rng, n: usize, allow_leaf_ptrs: bool, wide: bool) -> Vec<REntry> {
    let mut v = Vec::with_capacity(n);
    let mut id: u64 = if rng.chance(1, 3) { 0 } else { rng.below(1 << 20) };
    if rng.chance(1, 20) {
        // right below the first id of zoom 32: runs that end on, or cross, the end of the z/x/y-addressable id domain
        id = id_domain() - 1 - rng.below(6);
    }
    let mut next_off: u64 = 0;
    let style = rng.below(4); // 0 contiguous, 1 back-references, 2 arbitrary, 3 mixed
    for i in 0..n {
        let run: u32 = if allow_leaf_ptrs && rng.chance(1, 10) {
            0
        } else if wide && rng.chance(1, 50) {
            *rng.pick(&[u32::MAX, 1 << 31, 65536])
        } else if wide && rng.chance(1, 40) {
            // varint width boundaries of the 32-bit columns
            *rng.pick(&[127u32, 128, 16_383, 16_384, (1 << 21) - 1, 1 << 21, (1 << 28) - 1, 1 << 28, (1 << 28) + 1])
        } else if rng.chance(1, 4) {
            rng.range(2, 40) as u32
        } else {
            1
        };
        let length: u32 = if wide && rng.chance(1, 25) {
            *rng.pick(&[u32::MAX, 1 << 31, 127, 128, 16383, 16384, (1 << 21) - 1, 1 << 21, (1 << 21) + 1, (1 << 28) - 1, 1 << 28, (1 << 28) + 1])
        } else {
            rng.log_range(1, 1 << 20) as u32
        };
        let offset: u64 = match if style == 3 { rng.below(3) } else { style } {
            0 => {
                if i > 0 && rng.chance(1, 16) {
                    // k * 2^32 bytes behind the end of the previous entry (aliases "contiguous" under 32-bit arithmetic)
                    next_off.saturating_add(rng.range(1, 3) << 32).min(1 << 61)
                } else {
                    next_off
                }
            }
            1 => {
                if i > 0 && rng.chance(1, 3) {
                    let p: &REntry = &v[rng.usize(0, i - 1)];
                    p.offset
                } else {
                    next_off
                }
            }
            _ => {
                if wide {
                    rng.boundary_u64() >> 2
                } else {
                    rng.below(1 << 40)
                }
            }
        };
        let (offset, length) = match v.last() {
            // a valid but not minimal list: this entry continues its predecessor's run (same bytes, next id) without being merged
            Some(p) if rng.chance(1, 30) && p.run_length > 0 && run > 0 && p.tile_id + u64::from(p.run_length) == id => (p.offset, p.length),
            _ => (offset, length),
        };
        v.push(REntry {
            tile_id: id,
            offset,
            length,
            run_length: run,
        });
        next_off = offset.saturating_add(u64::from(length)).min(1 << 62);
        let gap = if rng.chance(1, 2) { 0 } else { rng.log_range(1, 1 << 24) };
        let step = u64::from(run.max(1)) + gap;
        match id.checked_add(step) {
            Some(nid) if nid < (1 << 62) => id = nid,
            _ => break,
        }
    }
    v
}

pub fn to_lib_entries(v: &[REntry]) -> Vec<pmtiles2::Entry> {
    v.iter()
        .map(|e| pmtiles2::Entry {
            tile_id: e.tile_id,
            offset: e.offset,
            length: e.length,
            run_length: e.run_length,
        })
        .collect()
}

pub fn from_lib_entries<'a>(v: impl IntoIterator<Item = &'a pmtiles2::Entry>) -> Vec<REntry> {
    v.into_iter()
        .map(|e| REntry {
            tile_id: e.tile_id,
            offset: e.offset,
            length: e.length,
            run_length: e.run_length,
        })
        .collect()
}

pub fn entries_fp(v: &[REntry]) -> u64 {
    let mut u = Vec::with_capacity(v.len() * 3);
    for e in v {
        u.push(e.tile_id);
        u.push(e.offset);
        u.push(u64::from(e.length) << 32 | u64::from(e.run_length));
    }
    hash_u64s(&u)
}

// ------------------------------------------------------------------ foreign archives

#[derive(Clone, Debug)]
pub struct Foreign {
    pub bytes: Vec<u8>,
    pub header: RHeader,
    /// ground truth: tile id -> (absolute offset, length)
    pub truth: BTreeMap<u64, (u64, u32)>,
    pub meta: Map<String, Value>,
    pub depth: u32,
    pub n_leaves: usize,
    /// first tile id of every leaf directory at any depth
    pub leaf_first_ids: Vec<u64>,
    /// flattened tile entries
    pub entries: Vec<REntry>,
    pub layout: String,
    pub gaps: Vec<(u64, u64)>,
}

#[derive(Clone, Debug)]
pub struct ForeignOpts {
    pub codec: u8,
    /// approximate number of tile entries
    pub n_entries: usize,
    /// directory tree depth: 1 = root only, 2 = root + leaves, 3 = nested leaves
    pub depth: u32,
    pub permute_sections: bool,
    pub gaps: bool,
    pub empty_metadata: bool,
    /// tile offsets: 0 clustered+dedup, 1 back references, 2 shuffled (non-monotonic)
    pub offset_style: u8,
    /// non-object metadata for the C19 clause (archive is then NOT spec-valid)
    pub raw_metadata: Option<Vec<u8>>,
    /// store identical bytes at several different offsets (a valid but not deduplicated writer)
    pub dup_contents: bool,
    /// some entries address a PREFIX of another entry's content (same offset, shorter length)
    pub prefix_entries: bool,
    /// entries per first-level leaf (None: balanced tree)
    pub leaf_entries: Option<usize>,
    /// gzip only: pad leaf streams above 32 KiB (FEXTRA header field) so that their length is 32768*k + 4,
    /// i.e. only trailer bytes lie behind a 32 KiB chunk boundary, and store the next leaf directly behind
    pub align_gzip_leaves: bool,
    /// keep the metadata small (workloads that open the same archive hundreds of times: the library
    /// parses metadata byte-wise through the codec, which costs ~100 ms per open for 300 KiB)
    pub small_metadata: bool,
    /// directories that hold tile entries AND leaf pointers side by side
    pub mixed_dirs: bool,
    /// root directory at absolute offset 127 and the second leaf at offset 127 of the leaf section
    /// (a leaf-section-relative offset that equals an ancestor's absolute offset)
    pub alias_leaf_offset: bool,
    /// Some(L): consecutive tile ids, run length 1, equal lengths L, contiguous offsets; only the last
    /// entry has a run > 1 (the most regular directory a fully populated zoom range produces)
    pub regular: Option<u32>,
    /// 0: every padding site decides independently; k >= 1: only the k-th padding site (in file order) gets padding
    pub gap_mode: u8,
    /// shift all ids so that the last entry's run ends exactly on the last z/x/y-addressable id (zoom 31, x = 2^31-1, y = 0)
    pub end_at_domain: bool,
}

/// Independent spec-level archive writer. Produces bytes + ground truth.
pub fn gen_foreign(rng: &mut Rng, o: &ForeignOpts) -> Foreign {
    let p = CodecParams::random(rng);
    // ---- tile entries + tile data
    let n = o.n_entries;
    let mut entries: Vec<REntry> = Vec::with_capacity(n);
    let mut id: u64 = if rng.chance(1, 2) { 0 } else { rng.below(1 << 24) };
    // contents
    let n_contents = if n == 0 {
        0
    } else if o.regular.is_some() {
        n
    } else {
        (n / 2).max(1)
    };
    let mut lens: Vec<u32> = (0..n_contents).map(|_| o.regular.unwrap_or_else(|| rng.log_range(1, 300) as u32)).collect();
    if let Some(l) = lens.first_mut() {
        if o.regular.is_none() && rng.chance(1, 8) {
            *l = 70_000; // one large content
        }
    }
    // pairs (k, j): content k is a byte-identical copy of content j, stored at its own offset
    let mut copies: Vec<(usize, usize)> = Vec::new();
    if o.dup_contents && n_contents >= 2 {
        for k in 1..n_contents {
            if rng.chance(1, 3) {
                let j = rng.usize(0, k - 1);
                lens[k] = lens[j];
                copies.push((k, j));
            }
        }
    }
    let mut order: Vec<usize> = (0..n_contents).collect();
    if o.offset_style == 2 {
        rng.shuffle(&mut order);
    }
    let mut offs = vec![0u64; n_contents];
    let mut cur = 0u64;
    let pad_inside = o.gaps && rng.chance(1, 2);
    for &ci in &order {
        if pad_inside && rng.chance(1, 4) {
            cur += rng.range(1, 9); // unreferenced bytes inside tile data
        }
        offs[ci] = cur;
        cur += u64::from(lens[ci]);
    }
    let data_len = cur;
    let mut data = vec![0u8; data_len as usize];
    // fill every byte with position-dependent noise so that wrong offsets are visible
    let salt = rng.next();
    for (i, b) in data.iter_mut().enumerate() {
        *b = (hash_u64s(&[salt, i as u64 / 8]) >> ((i % 8) * 8)) as u8;
    }
    for (k, j) in &copies {
        let (a, b, l) = (offs[*j] as usize, offs[*k] as usize, lens[*j] as usize);
        let src = data[a..a + l].to_vec();
        data[b..b + l].copy_from_slice(&src);
    }
    let mut next_content = 0usize;
    for i in 0..n {
        let ci = match if o.regular.is_some() { 9 } else { o.offset_style } {
            9 => i,
            0 => {
                // clustered: new content, or back-reference to an earlier one
                if next_content < n_contents && (next_content == 0 || rng.chance(2, 3) || n - i <= n_contents - next_content) {
                    next_content += 1;
                    next_content - 1
                } else {
                    rng.usize(0, next_content.max(1) - 1)
                }
            }
            _ => {
                if i < n_contents {
                    i
                } else {
                    rng.usize(0, n_contents - 1)
                }
            }
        };
        let run = if o.regular.is_some() {
            if i + 1 == n {
                rng.range(2, 9) as u32
            } else {
                1
            }
        } else if rng.chance(1, 5) {
            rng.range(2, 30) as u32
        } else {
            1
        };
        let length = if o.regular.is_none() && o.prefix_entries && lens[ci] > 1 && rng.chance(1, 4) { rng.range(1, u64::from(lens[ci]) - 1) as u32 } else { lens[ci] };
        entries.push(REntry {
            tile_id: id,
            offset: offs[ci],
            length,
            run_length: run,
        });
        let gap = if o.regular.is_some() || rng.chance(2, 3) { 0 } else { rng.log_range(1, 1 << 16) };
        id += u64::from(run) + gap;
    }
    if o.end_at_domain {
        if let Some(last) = entries.last() {
            let end = last.tile_id + u64::from(last.run_length);
            let shift = id_domain() - end;
            for e in &mut entries {
                e.tile_id += shift;
            }
        }
    }
    // ---- directory tree
    let mut leaf_section: Vec<u8> = Vec::new();
    let mut leaf_first_ids: Vec<u64> = Vec::new();
    let mut n_leaves = 0usize;
    let mut depth = 1u32;
    let enc = |list: &[REntry], rng: &mut Rng| -> Vec<u8> {
        let pp = if rng.chance(1, 2) { p.clone() } else { CodecParams::random(rng) };
        R::codec_compress(o.codec, &R::dir_encode(list), &pp).expect("codec")
    };
    let mut level: Vec<REntry> = entries.clone();
    let want_depth = if n < 2 { 1 } else { o.depth };
    for lvl in 1..want_depth {
        // chunk `level` into leaves and replace by pointers
        let remaining_levels = want_depth - lvl;
        let target_children = ((level.len() as f64).powf(1.0 / (f64::from(remaining_levels) + 1.0)).ceil() as usize).max(2);
        let chunk = if lvl == 1 { o.leaf_entries.unwrap_or((level.len() / target_children).max(1)) } else { (level.len() / target_children).max(1) };
        let mut ptrs: Vec<REntry> = Vec::new();
        let mut i = 0;
        let mut chunked = false;
        while i < level.len() {
            let mut c = rng.usize((chunk / 2).max(1), chunk + chunk / 2 + 1).min(level.len() - i);
            if o.alias_leaf_offset && n_leaves == 0 {
                c = c.min(3); // a first leaf shorter than 127 bytes
            }
            if o.mixed_dirs && rng.chance(1, 3) {
                // keep a few entries inline in the parent directory, between the pointers
                let k = rng.usize(1, 3).min(level.len() - i);
                ptrs.extend_from_slice(&level[i..i + k]);
                i += k;
                continue;
            }
            let list = &level[i..i + c];
            // mixed directories: now and then place the leaf so that it ENDS (in leaf-section coordinates) exactly at the tile
            // data offset of the tile entry that follows the pointer in the parent directory; that entry is then kept inline and
            // its offset is written as 0 = "contiguous with the previous entry", which here is a leaf pointer
            let mut force_inline_next = false;
            if o.mixed_dirs && !o.align_gzip_leaves && i + c < level.len() && level[i + c].run_length > 0 && rng.chance(1, 2) {
                let probe = enc(list, rng);
                let want = level[i + c].offset.checked_sub(probe.len() as u64);
                if let Some(w) = want {
                    if w >= leaf_section.len() as u64 && w < (1 << 20) {
                        leaf_section.resize(w as usize, 0xEE);
                        ptrs.push(REntry { tile_id: list[0].tile_id, offset: w, length: probe.len() as u32, run_length: 0 });
                        leaf_first_ids.push(list[0].tile_id);
                        leaf_section.extend_from_slice(&probe);
                        n_leaves += 1;
                        chunked = true;
                        i += c;
                        force_inline_next = true;
                    }
                }
            }
            if force_inline_next {
                ptrs.push(level[i]);
                i += 1;
                continue;
            }
            if o.alias_leaf_offset && n_leaves == 1 && leaf_section.len() < 127 {
                let g = 127 - leaf_section.len();
                leaf_section.extend(std::iter::repeat(0xEE).take(g));
            } else if o.gaps && !o.align_gzip_leaves && rng.chance(1, 5) {
                let g = rng.usize(1, 7);
                leaf_section.extend(std::iter::repeat(0xEE).take(g));
            }
            let mut b = enc(list, rng);
            if o.align_gzip_leaves && o.codec == R::C_GZIP && b.len() > 32_768 {
                let mut pp = CodecParams::plain();
                let s0 = R::codec_compress(o.codec, &R::dir_encode(list), &pp).expect("codec").len();
                let x = (4 + 2 * 32_768 - (s0 + 2) % 32_768) % 32_768;
                pp.gzip_extra = Some(vec![0u8; x]);
                b = R::codec_compress(o.codec, &R::dir_encode(list), &pp).expect("codec");
            }
            ptrs.push(REntry {
                tile_id: list[0].tile_id,
                offset: leaf_section.len() as u64,
                length: b.len() as u32,
                run_length: 0,
            });
            leaf_first_ids.push(list[0].tile_id);
            leaf_section.extend_from_slice(&b);
            n_leaves += 1;
            chunked = true;
            i += c;
        }
        if !chunked {
            // everything stayed inline at this level
            break;
        }
        level = ptrs;
        depth += 1;
    }
    let mut root = enc(&level, rng);
    // the root must fit the 16 KiB budget: if not, add another pointer level
    while root.len() > 16384 - 127 - 64 {
        let chunk = (level.len() / 8).max(2);
        let mut ptrs: Vec<REntry> = Vec::new();
        for list in level.chunks(chunk) {
            let b = enc(list, rng);
            ptrs.push(REntry {
                tile_id: list[0].tile_id,
                offset: leaf_section.len() as u64,
                length: b.len() as u32,
                run_length: 0,
            });
            leaf_first_ids.push(list[0].tile_id);
            leaf_section.extend_from_slice(&b);
            n_leaves += 1;
        }
        level = ptrs;
        depth += 1;
        root = enc(&level, rng);
    }
    // ---- metadata
    let meta = if o.empty_metadata {
        Map::new()
    } else if o.small_metadata {
        json_object(rng, 3, 5)
    } else {
        gen_metadata(rng)
    };
    let meta_bytes: Vec<u8> = if let Some(raw) = &o.raw_metadata {
        R::codec_compress(o.codec, raw, &p).expect("codec")
    } else if o.empty_metadata {
        Vec::new()
    } else {
        R::codec_compress(o.codec, serde_json::to_string(&meta).expect("json").as_bytes(), &p).expect("codec")
    };
    // ---- layout: root must lie within the first 16 KiB; other sections in any order
    let mut others: Vec<(u8, &Vec<u8>)> = vec![(1, &meta_bytes), (2, &leaf_section), (3, &data)];
    if o.permute_sections {
        rng.shuffle(&mut others);
    }
    let mut file: Vec<u8> = vec![0u8; 127];
    let mut gaps: Vec<(u64, u64)> = Vec::new();
    let site = std::cell::Cell::new(0u8);
    let pad = |file: &mut Vec<u8>, rng: &mut Rng, gaps: &mut Vec<(u64, u64)>, max: usize| {
        site.set(site.get() + 1);
        let here = if o.gap_mode == 0 { rng.chance(1, 2) } else { site.get() == o.gap_mode };
        if o.gaps && here {
            let g = rng.usize(1, max);
            let a = file.len() as u64;
            file.extend(std::iter::repeat(0xA5).take(g));
            gaps.push((a, a + g as u64));
        }
    };
    let small_first = !o.alias_leaf_offset && o.permute_sections && meta_bytes.len() + root.len() < 12000 && rng.chance(1, 3);
    let mut h = RHeader::default();
    let mut placed_meta_first = false;
    if small_first {
        // metadata before the root directory
        pad(&mut file, rng, &mut gaps, 16);
        h.meta_offset = file.len() as u64;
        h.meta_length = meta_bytes.len() as u64;
        file.extend_from_slice(&meta_bytes);
        placed_meta_first = true;
    }
    if 16384 - file.len() - root.len() > 40 && !o.alias_leaf_offset {
        pad(&mut file, rng, &mut gaps, 16);
    }
    h.root_offset = file.len() as u64;
    h.root_length = root.len() as u64;
    file.extend_from_slice(&root);
    for (which, bytes) in others {
        if which == 1 && placed_meta_first {
            continue;
        }
        pad(&mut file, rng, &mut gaps, 300);
        let off = file.len() as u64;
        file.extend_from_slice(bytes);
        match which {
            1 => {
                h.meta_offset = off;
                h.meta_length = bytes.len() as u64;
            }
            2 => {
                h.leaf_offset = off;
                h.leaf_length = bytes.len() as u64;
            }
            _ => {
                h.data_offset = off;
                h.data_length = bytes.len() as u64;
            }
        }
    }
    pad(&mut file, rng, &mut gaps, 50);
    h.n_addressed = entries.iter().map(|e| u64::from(e.run_length)).sum();
    h.n_entries = entries.len() as u64;
    h.n_contents = entries.iter().map(|e| e.offset).collect::<std::collections::HashSet<_>>().len() as u64;
    if rng.chance(1, 4) {
        // counters are optional for foreign writers (0 = unknown)
        h.n_addressed = 0;
        h.n_entries = 0;
        h.n_contents = 0;
    }
    h.clustered = u8::from(o.offset_style == 0);
    h.internal_compression = o.codec;
    h.tile_compression = rng.below(5) as u8;
    h.tile_type = rng.below(6) as u8;
    h.min_zoom = rng.next() as u8;
    h.max_zoom = rng.next() as u8;
    h.center_zoom = rng.next() as u8;
    let c = |rng: &mut Rng, lim: i64| -> i32 { (rng.range(0, 2 * lim as u64) as i64 - lim) as i32 };
    h.min_lon = c(rng, 1_800_000_000);
    h.min_lat = c(rng, 900_000_000);
    h.max_lon = c(rng, 1_800_000_000);
    h.max_lat = c(rng, 900_000_000);
    h.center_lon = c(rng, 1_800_000_000);
    h.center_lat = c(rng, 900_000_000);
    file[..127].copy_from_slice(&R::header_pack(&h));
    let mut truth = BTreeMap::new();
    for e in &entries {
        for t in e.tile_id..e.tile_id + u64::from(e.run_length) {
            truth.insert(t, (h.data_offset + e.offset, e.length));
        }
    }
    Foreign {
        bytes: file,
        header: h,
        truth,
        meta,
        depth,
        n_leaves,
        leaf_first_ids,
        entries,
        layout: format!(
            "codec={} depth={} permute={} gaps={} offsets={} emptymeta={}",
            R::codec_name(o.codec),
            depth,
            o.permute_sections,
            o.gaps,
            o.offset_style,
            o.empty_metadata
        ),
        gaps,
    }
}

pub fn gen_foreign_opts(rng: &mut Rng, codec: u8, max_entries: usize) -> ForeignOpts {
    let n = match rng.below(6) {
        0 => rng.usize(0, 3),
        1 | 2 => rng.usize(4, 60),
        3 | 4 => rng.usize(60, max_entries.max(61).min(600)),
        _ => rng.usize(100, max_entries.max(101)),
    };
    ForeignOpts {
        codec,
        n_entries: n,
        depth: rng.range(1, 3) as u32,
        permute_sections: rng.chance(1, 2),
        gaps: rng.chance(1, 2),
        empty_metadata: rng.chance(1, 5),
        offset_style: rng.below(3) as u8,
        raw_metadata: None,
        dup_contents: rng.chance(1, 4),
        prefix_entries: rng.chance(1, 5),
        leaf_entries: None,
        align_gzip_leaves: false,
        small_metadata: false,
        mixed_dirs: rng.chance(1, 4),
        alias_leaf_offset: rng.chance(1, 6),
        regular: None,
        gap_mode: if rng.chance(1, 2) { 0 } else { rng.range(1, 5) as u8 },
        end_at_domain: rng.chance(1, 12),
    }
}
