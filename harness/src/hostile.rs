//! Hostile-input machinery for C08: a structured archive model that can be assembled into bytes
//! with arbitrary (invalid) field values, a structure-aware mutator, the crafted hazard corpus and a
//! lenient expansion estimator that mirrors the library's own (truncating, wrapping) decoding so
//! that inputs which legitimately expand past the budget can be put outside the claim.

use crate::refimpl::{self as R, CodecParams, RHeader};
use crate::rng::Rng;
use std::collections::HashSet;

/// A directory as raw varint columns (values are written exactly as given).
#[derive(Clone, Debug, Default)]
pub struct MDir {
    pub count: u64,
    pub ids: Vec<u64>,
    pub runs: Vec<u64>,
    pub lens: Vec<u64>,
    pub offs: Vec<u64>,
    /// for pointer entries: index of the target leaf (None = tile entry or detached pointer)
    pub target: Vec<Option<usize>>,
    /// bytes cut from the end (negative = garbage appended) after encoding
    pub cut: i32,
    /// compress with this codec instead of the archive's
    pub codec_override: Option<u8>,
    /// flip a byte of the compressed stream at this relative position
    pub corrupt_at: Option<usize>,
    /// store exactly these bytes as the directory's stream
    pub raw_stream: Option<Vec<u8>>,
}

impl MDir {
    pub fn encode_plain(&self) -> Vec<u8> {
        let mut out = Vec::new();
        R::put_varint(&mut out, self.count);
        for col in [&self.ids, &self.runs, &self.lens, &self.offs] {
            for v in col {
                R::put_varint(&mut out, *v);
            }
        }
        out
    }

    pub fn from_entries(entries: &[R::REntry]) -> Self {
        let plain = R::dir_encode(entries);
        Self::from_plain(&plain).expect("own encoding")
    }

    pub fn from_plain(plain: &[u8]) -> Option<Self> {
        let mut pos = 0;
        let n = R::get_varint(plain, &mut pos).ok()?;
        if n > plain.len() as u64 {
            return None;
        }
        let mut cols: Vec<Vec<u64>> = Vec::new();
        for _ in 0..4 {
            let mut c = Vec::with_capacity(n as usize);
            for _ in 0..n {
                c.push(R::get_varint(plain, &mut pos).ok()?);
            }
            cols.push(c);
        }
        let offs = cols.pop()?;
        let lens = cols.pop()?;
        let runs = cols.pop()?;
        let ids = cols.pop()?;
        Some(Self {
            count: n,
            target: vec![None; n as usize],
            ids,
            runs,
            lens,
            offs,
            cut: 0,
            codec_override: None,
            corrupt_at: None,
            raw_stream: None,
        })
    }
}

#[derive(Clone, Debug)]
pub struct MArchive {
    pub header: RHeader,
    pub codec: u8,
    pub root: MDir,
    pub leaves: Vec<MDir>,
    pub meta_plain: Vec<u8>,
    pub meta_codec_override: Option<u8>,
    /// store exactly these bytes as the metadata stream
    pub meta_raw_stream: Option<Vec<u8>>,
    pub data: Vec<u8>,
    /// recompute section offsets/lengths in the header from the real layout
    pub fix_header: bool,
    /// header field overrides applied after layout: (field index 0..=10, value)
    pub header_over: Vec<(usize, u64)>,
    pub header_bytes_over: Vec<(usize, u8)>,
    /// truncate the final file to this many bytes
    pub truncate: Option<usize>,
}

/// Under Miri the zstd FFI is unavailable: streams that would be zstd are left uncompressed.
pub static NO_ZSTD: std::sync::atomic::AtomicBool = std::sync::atomic::AtomicBool::new(false);

fn usable(c: u8) -> u8 {
    if c == 0 || c > 4 || (c == R::C_ZSTD && NO_ZSTD.load(std::sync::atomic::Ordering::Relaxed)) {
        1
    } else {
        c
    }
}

/// A zstd frame whose header declares `declared` bytes of content (8-byte Frame_Content_Size field, single
/// segment) but which carries one raw block of `actual.len()` bytes.
pub fn zstd_frame_declaring(declared: u64, actual: &[u8]) -> Vec<u8> {
    let mut f = vec![0x28, 0xb5, 0x2f, 0xfd, 0xe0];
    f.extend_from_slice(&declared.to_le_bytes());
    let hdr = 1u32 | (actual.len() as u32) << 3; // last block, raw
    f.extend_from_slice(&hdr.to_le_bytes()[..3]);
    f.extend_from_slice(actual);
    f
}

fn compress_dir(d: &MDir, codec: u8, rng: &mut Rng) -> Vec<u8> {
    if let Some(raw) = &d.raw_stream {
        return raw.clone();
    }
    let mut plain = d.encode_plain();
    let c = d.codec_override.unwrap_or(codec);
    if d.cut > 0 {
        let k = (d.cut as usize).min(plain.len());
        plain.truncate(plain.len() - k);
    }
    let p = CodecParams::plain();
    let mut z = R::codec_compress(usable(c), &plain, &p).unwrap_or(plain);
    if d.cut < 0 {
        let n = (-d.cut) as usize;
        z.extend(rng.bytes(n));
    }
    if let Some(at) = d.corrupt_at {
        if !z.is_empty() {
            let i = at % z.len();
            z[i] ^= 0x5a;
        }
    }
    z
}

impl MArchive {
    /// A valid two-level archive model (root with pointers to `n_leaves` leaves, or root-only).
    pub fn valid(rng: &mut Rng, codec: u8, n_entries: usize, n_leaves: usize, nested: bool) -> Self {
        let entries = {
            let mut v = Vec::with_capacity(n_entries);
            let mut id = rng.below(50);
            let mut off = 0u64;
            for _ in 0..n_entries {
                let len = rng.range(1, 40) as u32;
                let run = if rng.chance(1, 5) { rng.range(2, 5) as u32 } else { 1 };
                v.push(R::REntry {
                    tile_id: id,
                    offset: off,
                    length: len,
                    run_length: run,
                });
                off += u64::from(len);
                id += u64::from(run) + if rng.chance(1, 2) { 0 } else { rng.below(100) };
            }
            v
        };
        let data_len: u64 = entries.last().map_or(0, |e| e.offset + u64::from(e.length));
        let data = rng.bytes(data_len as usize);
        let meta_plain = br#"{"name":"hostile","n":1}"#.to_vec();
        let mut leaves: Vec<MDir> = Vec::new();
        let root = if n_leaves == 0 || entries.len() < 2 {
            MDir::from_entries(&entries)
        } else {
            let chunk = entries.len().div_ceil(n_leaves).max(1);
            let mut ptr_ids = Vec::new();
            for c in entries.chunks(chunk) {
                ptr_ids.push(c[0].tile_id);
                leaves.push(MDir::from_entries(c));
            }
            let tile_leaves = leaves.len();
            let mut top: Vec<(u64, usize)> = ptr_ids.iter().copied().zip(0..tile_leaves).collect();
            if nested && tile_leaves >= 2 {
                // one intermediate pointer leaf covering the first half
                let half = tile_leaves / 2;
                let mut mid = MDir::default();
                let mut last = 0;
                for (id, idx) in top.iter().take(half) {
                    mid.ids.push(id - last);
                    last = *id;
                    mid.runs.push(0);
                    mid.lens.push(1);
                    mid.offs.push(1);
                    mid.target.push(Some(*idx));
                }
                mid.count = mid.ids.len() as u64;
                leaves.push(mid);
                let first_id = top[0].0;
                top = std::iter::once((first_id, tile_leaves)).chain(top.into_iter().skip(half)).collect();
            }
            let mut r = MDir::default();
            let mut last = 0;
            for (id, idx) in &top {
                r.ids.push(id - last);
                last = *id;
                r.runs.push(0);
                r.lens.push(1);
                r.offs.push(1);
                r.target.push(Some(*idx));
            }
            r.count = r.ids.len() as u64;
            r
        };
        let mut header = RHeader::default();
        header.internal_compression = codec;
        header.tile_compression = 1;
        header.tile_type = 1;
        header.clustered = 1;
        header.n_addressed = entries.iter().map(|e| u64::from(e.run_length)).sum();
        header.n_entries = entries.len() as u64;
        header.n_contents = entries.len() as u64;
        Self {
            header,
            codec,
            root,
            leaves,
            meta_plain,
            meta_codec_override: None,
            meta_raw_stream: None,
            data,
            fix_header: true,
            header_over: Vec::new(),
            header_bytes_over: Vec::new(),
            truncate: None,
        }
    }

    /// Lay the archive out: header | root | metadata | leaves | data.
    pub fn assemble(&self, rng: &mut Rng) -> Vec<u8> {
        // leaves: tile leaves do not depend on anything; pointer leaves reference earlier leaves.
        let n = self.leaves.len();
        let mut enc: Vec<Vec<u8>> = vec![Vec::new(); n];
        let mut offs = vec![0u64; n];
        let mut lens = vec![0u64; n];
        let mut section: Vec<u8> = Vec::new();
        for i in 0..n {
            let mut d = self.leaves[i].clone();
            for (k, t) in self.leaves[i].target.iter().enumerate() {
                if let Some(t) = t {
                    if *t < i && k < d.offs.len() && k < d.lens.len() {
                        d.offs[k] = offs[*t] + 1;
                        d.lens[k] = lens[*t];
                    }
                }
            }
            // contiguity rule: written raw, so keep explicit offsets (value = offset + 1)
            enc[i] = compress_dir(&d, self.codec, rng);
            offs[i] = section.len() as u64;
            lens[i] = enc[i].len() as u64;
            section.extend_from_slice(&enc[i]);
        }
        let mut root = self.root.clone();
        for (k, t) in self.root.target.iter().enumerate() {
            if let Some(t) = t {
                if *t < n && k < root.offs.len() && k < root.lens.len() {
                    root.offs[k] = offs[*t] + 1;
                    root.lens[k] = lens[*t];
                }
            }
        }
        let root_b = compress_dir(&root, self.codec, rng);
        let mc = self.meta_codec_override.unwrap_or(self.codec);
        let meta_b = match &self.meta_raw_stream {
            Some(raw) => raw.clone(),
            None => R::codec_compress(usable(mc), &self.meta_plain, &CodecParams::plain()).unwrap_or_else(|_| self.meta_plain.clone()),
        };
        let mut h = self.header;
        let mut file = vec![0u8; 127];
        if self.fix_header {
            h.root_offset = 127;
            h.root_length = root_b.len() as u64;
            h.meta_offset = h.root_offset + h.root_length;
            h.meta_length = meta_b.len() as u64;
            h.leaf_offset = h.meta_offset + h.meta_length;
            h.leaf_length = section.len() as u64;
            h.data_offset = h.leaf_offset + h.leaf_length;
            h.data_length = self.data.len() as u64;
        }
        file.extend_from_slice(&root_b);
        file.extend_from_slice(&meta_b);
        file.extend_from_slice(&section);
        file.extend_from_slice(&self.data);
        let mut fields = [
            h.root_offset,
            h.root_length,
            h.meta_offset,
            h.meta_length,
            h.leaf_offset,
            h.leaf_length,
            h.data_offset,
            h.data_length,
            h.n_addressed,
            h.n_entries,
            h.n_contents,
        ];
        for (i, v) in &self.header_over {
            fields[*i % 11] = *v;
        }
        h.root_offset = fields[0];
        h.root_length = fields[1];
        h.meta_offset = fields[2];
        h.meta_length = fields[3];
        h.leaf_offset = fields[4];
        h.leaf_length = fields[5];
        h.data_offset = fields[6];
        h.data_length = fields[7];
        h.n_addressed = fields[8];
        h.n_entries = fields[9];
        h.n_contents = fields[10];
        file[..127].copy_from_slice(&R::header_pack(&h));
        for (i, b) in &self.header_bytes_over {
            file[*i % 127] = *b;
        }
        if let Some(t) = self.truncate {
            file.truncate(t.min(file.len()));
        }
        file
    }
}

pub const BOUNDARY: [u64; 22] = [
    0,
    1,
    2,
    127,
    128,
    129,
    16383,
    16384,
    (1 << 31) - 1,
    1 << 31,
    (1 << 32) - 1,
    1 << 32,
    (1 << 32) + 1,
    1 << 40,
    1 << 60,
    1 << 62,
    (1 << 63) - 1,
    1 << 63,
    (1 << 63) + 1,
    u64::MAX - 127,
    u64::MAX - 1,
    u64::MAX,
];

fn mutate_dir(d: &mut MDir, rng: &mut Rng, n_leaves: usize) -> String {
    let n = d.ids.len();
    match rng.below(12) {
        0 => {
            d.count = *rng.pick(&BOUNDARY);
            format!("count={}", d.count)
        }
        1 if n > 0 => {
            let i = rng.usize(0, n - 1);
            d.ids[i] = *rng.pick(&BOUNDARY);
            format!("id_delta[{i}]={}", d.ids[i])
        }
        2 if n > 0 => {
            let i = rng.usize(0, n - 1);
            d.runs[i] = *rng.pick(&[0u64, 1, 2, 5, 100, 65536, (1 << 32) - 1, 1 << 32, (1 << 32) + 3, u64::MAX]);
            format!("run[{i}]={}", d.runs[i])
        }
        3 if n > 0 => {
            let i = rng.usize(0, n - 1);
            d.lens[i] = *rng.pick(&BOUNDARY);
            format!("len[{i}]={}", d.lens[i])
        }
        4 if !d.offs.is_empty() => {
            let i = rng.usize(0, d.offs.len() - 1);
            d.offs[i] = *rng.pick(&BOUNDARY);
            if i < d.target.len() {
                d.target[i] = None;
            }
            format!("off[{i}]={}", d.offs[i])
        }
        5 => {
            d.cut = rng.range(1, 6) as i32 * if rng.chance(1, 2) { 1 } else { -1 };
            format!("cut={}", d.cut)
        }
        6 => {
            d.corrupt_at = Some(rng.usize(0, 4096));
            String::from("corrupt-stream")
        }
        7 => {
            d.codec_override = Some(rng.range(1, 4) as u8);
            format!("codec-override={}", d.codec_override.unwrap_or(0))
        }
        8 if !d.target.is_empty() && d.target.len() <= d.runs.len() => {
            // turn a tile entry into a pointer / retarget a pointer (cycles, self references)
            let i = rng.usize(0, d.target.len() - 1);
            d.runs[i] = 0;
            d.target[i] = if n_leaves > 0 { Some(rng.usize(0, n_leaves - 1)) } else { None };
            format!("pointer[{i}]->{:?}", d.target[i])
        }
        9 if d.offs.len() >= 2 && d.lens.len() >= 2 => {
            // two entries start at the same byte but declare different lengths (prefix sharing / overlap)
            let i = rng.usize(0, d.offs.len() - 2);
            let j = i + 1;
            let base = if d.offs[i] == 0 { 1 } else { d.offs[i] };
            d.offs[i] = base;
            d.offs[j] = base;
            if j < d.target.len() {
                d.target[j] = None;
            }
            d.lens[j] = d.lens[i].wrapping_add(rng.range(1, 40));
            format!("alias-offset[{i},{j}]")
        }
        10 if n > 0 => {
            let i = rng.usize(0, n - 1);
            d.lens[i] = *rng.pick(&[1u64 << 32, 2 << 32, (1 << 32) + 1, 1 << 35, 1 << 40]);
            format!("len[{i}]=k*2^32")
        }
        _ => {
            // drop the last value of a column (columns of unequal length)
            if d.offs.pop().is_some() {
                d.target.pop();
            }
            String::from("short-column")
        }
    }
}

/// One or two structure-aware mutations. Returns a label describing them.
pub fn mutate(a: &mut MArchive, rng: &mut Rng) -> String {
    let mut label = String::new();
    let k = if rng.chance(1, 3) { 2 } else { 1 };
    for _ in 0..k {
        let nl = a.leaves.len();
        let l = match rng.below(12) {
            0 | 1 => {
                let f = rng.usize(0, 10);
                let v = *rng.pick(&BOUNDARY);
                a.header_over.push((f, v));
                format!("header.field{f}={v}")
            }
            2 => {
                let at = rng.usize(0, 126);
                let v = *rng.pick(&[0u8, 1, 2, 3, 4, 5, 6, 0x7f, 0x80, 0xff]);
                a.header_bytes_over.push((at, v));
                format!("header.byte{at}={v}")
            }
            3 | 4 | 5 => format!("root.{}", mutate_dir(&mut a.root, rng, nl)),
            6 | 7 if nl > 0 => {
                let i = rng.usize(0, nl - 1);
                format!("leaf{i}.{}", mutate_dir(&mut a.leaves[i], rng, nl))
            }
            8 => {
                a.meta_plain = match rng.below(7) {
                    0 => b"[1,2]".to_vec(),
                    1 => b"null".to_vec(),
                    2 => vec![0xff, 0xfe, 0x00, 0x80],
                    3 => {
                        let mut v = vec![b'['; 300];
                        v.extend(vec![b']'; 300]);
                        v
                    }
                    4 => b"{\"a\":".to_vec(),
                    5 => Vec::new(),
                    _ => rng.bytes(30),
                };
                String::from("metadata")
            }
            9 => {
                a.meta_codec_override = Some(rng.range(1, 4) as u8);
                String::from("metadata-codec")
            }
            10 => {
                a.truncate = Some(rng.usize(0, 600));
                format!("truncate={:?}", a.truncate)
            }
            _ => {
                a.fix_header = false;
                a.header.root_offset = 127;
                a.header.root_length = rng.range(0, 300);
                a.header.meta_offset = rng.range(0, 600);
                a.header.meta_length = rng.range(0, 100);
                a.header.leaf_offset = rng.range(0, 600);
                a.header.leaf_length = rng.range(0, 600);
                a.header.data_offset = rng.range(0, 900);
                a.header.data_length = rng.range(0, 900);
                String::from("stale-header")
            }
        };
        if !label.is_empty() {
            label.push('+');
        }
        label.push_str(&l);
    }
    label
}

// ------------------------------------------------------------------ lenient estimator

/// Decode one varint the way `integer-encoding` does for a type with `max` encoded bytes
/// (u64: 10, u32: 5): value truncated, error when unterminated.
fn lib_varint(data: &[u8], pos: &mut usize, max: usize) -> Option<u64> {
    let mut result: u64 = 0;
    let mut shift = 0u32;
    let mut i = 0;
    loop {
        let b = *data.get(*pos)?;
        if i >= max {
            return None;
        }
        *pos += 1;
        i += 1;
        if shift < 64 {
            result |= u64::from(b & 0x7f) << shift;
        }
        if b & 0x80 == 0 {
            return Some(result);
        }
        shift += 7;
    }
}

#[derive(Clone, Copy, Debug)]
pub struct LEntry {
    pub tile_id: u64,
    pub run: u32,
    pub len: u32,
    pub off: u64,
}

/// Mirror of the library's directory decoding with wrapping arithmetic; None where the library
/// (any version that does not crash) must fail before expanding anything.
pub fn lenient_dir(plain: &[u8]) -> Option<Vec<LEntry>> {
    let mut pos = 0;
    let n = lib_varint(plain, &mut pos, 10)?;
    if n > plain.len() as u64 {
        return None;
    }
    let n = n as usize;
    let mut v = vec![
        LEntry {
            tile_id: 0,
            run: 0,
            len: 0,
            off: 0
        };
        n
    ];
    let mut last = 0u64;
    for e in &mut v {
        last = last.wrapping_add(lib_varint(plain, &mut pos, 10)?);
        e.tile_id = last;
    }
    for e in &mut v {
        e.run = lib_varint(plain, &mut pos, 5)? as u32;
    }
    for e in &mut v {
        e.len = lib_varint(plain, &mut pos, 5)? as u32;
        if e.len == 0 {
            return None;
        }
    }
    for i in 0..n {
        let val = lib_varint(plain, &mut pos, 10)?;
        v[i].off = if i > 0 && val == 0 {
            v[i - 1].off.wrapping_add(u64::from(v[i - 1].len))
        } else {
            val.wrapping_sub(1)
        };
    }
    Some(v)
}

#[derive(Clone, Debug, Default)]
pub struct Estimate {
    /// sum of run lengths over all directory visits (what a reader would expand)
    pub tiles: u64,
    pub visits: u64,
    pub cycle: bool,
    pub max_depth: u32,
    pub capped: bool,
    pub plain_bytes: u64,
    pub header_ok: bool,
    /// largest declared tile length seen among the visited entries
    pub max_len: u64,
}

pub const BUDGET_TILES: u64 = 2_000_000;
pub const BUDGET_VISITS: u64 = 100_000;

/// Upper estimate of the work a (non-crashing) reader following the library's decoding does.
pub fn estimate(file: &[u8]) -> Estimate {
    let mut est = Estimate::default();
    let Ok(h) = R::header_unpack(file) else { return est };
    if h.internal_compression == 0 || h.internal_compression > 4 {
        return est;
    }
    est.header_ok = true;
    // iterative DFS with an explicit path (cycle = (off,len) already on the path)
    struct Frame {
        key: (u64, u64),
        entries: Vec<LEntry>,
        next: usize,
    }
    let load = |off: u64, len: u64, est: &mut Estimate| -> Option<Vec<LEntry>> {
        // `take(len)` with an absurd length simply reads to the end of the stream
        let end = off.saturating_add(len);
        let flen = file.len() as u64;
        // the library reads through take(len): a section reaching past EOF is read as far as it goes
        let a = off.min(flen) as usize;
        let b = end.min(flen) as usize;
        let raw = &file[a..b];
        let plain = R::codec_decompress(h.internal_compression, raw, 64 << 20)
            .or_else(|_| lenient_prefix_decompress(h.internal_compression, raw))
            .ok()?;
        est.plain_bytes += plain.len() as u64;
        lenient_dir(&plain)
    };
    let mut path: Vec<Frame> = Vec::new();
    let mut on_path: HashSet<(u64, u64)> = HashSet::new();
    est.visits = 1;
    let Some(root) = load(h.root_offset, h.root_length, &mut est) else { return est };
    on_path.insert((h.root_offset, h.root_length));
    path.push(Frame {
        key: (h.root_offset, h.root_length),
        entries: root,
        next: 0,
    });
    while let Some(top) = path.last_mut() {
        if top.next >= top.entries.len() {
            on_path.remove(&top.key);
            path.pop();
            continue;
        }
        let e = top.entries[top.next];
        top.next += 1;
        if e.run > 0 {
            est.max_len = est.max_len.max(u64::from(e.len));
            est.tiles = est.tiles.saturating_add(u64::from(e.run));
            if est.tiles > BUDGET_TILES {
                est.capped = true;
                return est;
            }
            continue;
        }
        let off = h.leaf_offset.wrapping_add(e.off);
        let key = (off, u64::from(e.len));
        if on_path.contains(&key) {
            est.cycle = true;
            continue;
        }
        est.visits += 1;
        if est.visits > BUDGET_VISITS {
            est.capped = true;
            return est;
        }
        let depth = path.len() as u32;
        est.max_depth = est.max_depth.max(depth);
        if let Some(entries) = load(off, u64::from(e.len), &mut est) {
            on_path.insert(key);
            path.push(Frame { key, entries, next: 0 });
        }
    }
    est
}

/// Streaming decoders hand out the bytes they could decode before hitting corruption; a directory
/// can be complete within that prefix. Decode as much as possible.
fn lenient_prefix_decompress(codec: u8, raw: &[u8]) -> Result<Vec<u8>, String> {
    use std::io::Read;
    let mut out = Vec::new();
    let mut buf = [0u8; 4096];
    let mut pull = |r: &mut dyn Read| loop {
        match r.read(&mut buf) {
            Ok(0) | Err(_) => break,
            Ok(n) => {
                out.extend_from_slice(&buf[..n]);
                if out.len() > (64 << 20) {
                    break;
                }
            }
        }
    };
    match codec {
        R::C_GZIP => pull(&mut flate2::read::GzDecoder::new(raw)),
        R::C_BROTLI => pull(&mut brotli::Decompressor::new(raw, 4096)),
        R::C_ZSTD => match zstd::stream::read::Decoder::new(raw) {
            Ok(mut d) => pull(&mut d),
            Err(e) => return Err(e.to_string()),
        },
        _ => return Err(String::from("none")),
    }
    Ok(out)
}
