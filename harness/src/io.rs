//! Stream instruments: an in-memory seekable stream (semantics of `Cursor<Vec<u8>>`) that
//! records every operation at the boundary, imposes fragmentation schedules, injects fail-stop
//! faults, bounds the number of operations, and (async twin) injects `Pending`.

use crate::rng::Rng;
use futures::io::{AsyncRead, AsyncSeek, AsyncWrite};
use std::io::{Error, ErrorKind, Read, Result, Seek, SeekFrom, Write};

pub static FAULT_SALT: std::sync::atomic::AtomicU64 = std::sync::atomic::AtomicU64::new(0);
pub const FAULT_KINDS: [ErrorKind; 10] = [
    ErrorKind::Other,
    ErrorKind::UnexpectedEof,
    ErrorKind::BrokenPipe,
    ErrorKind::WriteZero,
    ErrorKind::TimedOut,
    ErrorKind::InvalidData,
    ErrorKind::InvalidInput,
    ErrorKind::NotFound,
    ErrorKind::PermissionDenied,
    ErrorKind::ConnectionReset,
];
use std::pin::Pin;
use std::task::{Context, Poll};

#[derive(Clone, Copy, Debug, PartialEq, Eq, Hash)]
pub enum OpKind {
    Read,
    Write,
    Seek,
    Flush,
    Close,
}

impl OpKind {
    pub fn name(self) -> &'static str {
        match self {
            Self::Read => "read",
            Self::Write => "write",
            Self::Seek => "seek",
            Self::Flush => "flush",
            Self::Close => "close",
        }
    }
}

#[derive(Clone, Debug)]
pub struct Op {
    pub kind: OpKind,
    /// stream position before the call
    pub pos: u64,
    /// requested length (read/write) or absolute target (seek)
    pub req: u64,
    /// bytes transferred / new position; None if the call returned an error
    pub res: Option<u64>,
    /// bytes written (only kept when `keep_data`)
    pub data: Vec<u8>,
}

/// Schedule of transfer sizes (each >= 1).
#[derive(Clone, Debug)]
pub enum Sched {
    /// satisfy every request fully
    Full,
    Fixed(usize),
    /// consume sizes from the list, then satisfy fully
    List(Vec<usize>, usize),
    Random(Rng, usize),
    /// block-oriented stream: one transfer never crosses a multiple of the page size (position dependent)
    Page(usize),
}

impl Sched {
    fn next_at(&mut self, pos: u64) -> usize {
        if let Self::Page(p) = self {
            let p = (*p).max(1) as u64;
            return (p - pos % p) as usize;
        }
        self.next()
    }

    fn next(&mut self) -> usize {
        match self {
            Self::Page(p) => (*p).max(1),
            Self::Full => usize::MAX,
            Self::Fixed(n) => (*n).max(1),
            Self::List(v, i) => {
                if *i < v.len() {
                    *i += 1;
                    v[*i - 1].max(1)
                } else {
                    usize::MAX
                }
            }
            Self::Random(r, max) => r.usize(1, (*max).max(1)),
        }
    }

    pub fn describe(&self) -> String {
        match self {
            Self::Full => String::from("full"),
            Self::Fixed(n) => format!("fixed({n})"),
            Self::List(v, _) => format!("list({v:?})"),
            Self::Random(_, m) => format!("random(1..={m})"),
            Self::Page(p) => format!("page({p})"),
        }
    }
}

/// Pattern of `Pending` answers of the async twin.
#[derive(Clone, Debug)]
pub enum Pend {
    Never,
    /// first poll of every operation is Pending
    Alternate,
    /// per-poll bits (true = Pending) for the first polls, afterwards Never. Never two Pending in
    /// a row beyond what the bits say.
    Bits(Vec<bool>, usize),
    /// Pending with probability num/den (at most 3 in a row)
    Random(Rng, u64, u64),
}

pub struct Core {
    pub data: Vec<u8>,
    pub pos: u64,
    pub log: Vec<Op>,
    pub record: bool,
    pub keep_data: bool,
    pub rsched: Sched,
    pub wsched: Sched,
    /// operation index from which every operation fails (fail-stop)
    pub fail_from: Option<u64>,
    /// operations allowed before "unbounded work" is recorded and operations start failing
    pub op_budget: Option<u64>,
    pub budget_exceeded: bool,
    pub nops: u64,
    pub faults_hit: u64,
    pub first_fault_kind: Option<OpKind>,
    /// number of read transfers by size class (histogram support)
    pub transfers: u64,
    pub short_transfers: u64,
    pub max_len: u64,
    /// virtual hole: `data[i]` is the byte at absolute position `base + i`; the positions below `base` hold no storage
    /// (reads there return zeros, writes there are only counted) -- streams whose interesting part lies beyond 4 GiB
    pub base: u64,
    pub below_base_writes: u64,
    /// transient fault: the next `fail_next` operations fail, later ones succeed again
    pub fail_next: u64,
    /// transient fault: exactly the operation with this index fails
    pub fail_once_at: Option<u64>,
}

impl Core {
    pub fn new(data: Vec<u8>) -> Self {
        Self {
            data,
            pos: 0,
            log: Vec::new(),
            record: false,
            keep_data: false,
            rsched: Sched::Full,
            wsched: Sched::Full,
            fail_from: None,
            op_budget: None,
            budget_exceeded: false,
            nops: 0,
            faults_hit: 0,
            first_fault_kind: None,
            base: 0,
            below_base_writes: 0,
            fail_next: 0,
            fail_once_at: None,
            transfers: 0,
            short_transfers: 0,
            max_len: 1 << 32,
        }
    }

    fn gate(&mut self, kind: OpKind, req: u64) -> Result<()> {
        let idx = self.nops;
        self.nops += 1;
        let mut fail = false;
        if self.fail_next > 0 {
            self.fail_next -= 1;
            fail = true;
        }
        if self.fail_once_at == Some(idx) {
            fail = true;
        }
        if let Some(k) = self.fail_from {
            if idx >= k {
                fail = true;
            }
        }
        if let Some(b) = self.op_budget {
            if idx >= b {
                self.budget_exceeded = true;
                fail = true;
            }
        }
        if fail {
            self.faults_hit += 1;
            if self.first_fault_kind.is_none() {
                self.first_fault_kind = Some(kind);
            }
            if self.record {
                self.log.push(Op {
                    kind,
                    pos: self.pos,
                    req,
                    res: None,
                    data: Vec::new(),
                });
            }
            // the error kind rotates with the fault position and a per-scenario salt (fail-stop faults of every kind must
            // be reported alike; `Interrupted` and `WouldBlock` mean "try again" and are not fail-stop faults)
            let sel = self.fail_from.unwrap_or(0).wrapping_add(FAULT_SALT.load(std::sync::atomic::Ordering::Relaxed));
            return Err(Error::new(FAULT_KINDS[(sel % FAULT_KINDS.len() as u64) as usize], "injected stream failure"));
        }
        Ok(())
    }

    pub fn do_read(&mut self, buf: &mut [u8]) -> Result<usize> {
        self.gate(OpKind::Read, buf.len() as u64)?;
        if self.pos < self.base {
            let n = (buf.len() as u64).min(self.base - self.pos) as usize;
            buf[..n].fill(0);
            self.pos += n as u64;
            return Ok(n);
        }
        let len = self.data.len() as u64;
        let start = (self.pos - self.base).min(len) as usize;
        let avail = self.data.len() - start;
        let mut n = buf.len().min(avail);
        if n > 0 {
            let s = self.rsched.next_at(self.pos);
            if s < n {
                n = s;
                self.short_transfers += 1;
            }
            self.transfers += 1;
        }
        buf[..n].copy_from_slice(&self.data[start..start + n]);
        if self.record {
            self.log.push(Op {
                kind: OpKind::Read,
                pos: self.pos,
                req: buf.len() as u64,
                res: Some(n as u64),
                data: Vec::new(),
            });
        }
        self.pos += n as u64;
        Ok(n)
    }

    pub fn do_write(&mut self, buf: &[u8]) -> Result<usize> {
        self.gate(OpKind::Write, buf.len() as u64)?;
        let mut n = buf.len();
        if n > 0 {
            let s = self.wsched.next_at(self.pos);
            if s < n {
                n = s;
                self.short_transfers += 1;
            }
            self.transfers += 1;
        }
        let end = self.pos.checked_add(n as u64);
        match end {
            Some(e) if e <= self.max_len => {}
            _ => {
                if self.record {
                    self.log.push(Op {
                        kind: OpKind::Write,
                        pos: self.pos,
                        req: buf.len() as u64,
                        res: None,
                        data: Vec::new(),
                    });
                }
                return Err(Error::new(ErrorKind::InvalidInput, "write beyond the stream's maximum length"));
            }
        }
        if self.pos < self.base {
            let n = (n as u64).min(self.base - self.pos);
            self.below_base_writes += n;
            self.pos += n;
            return Ok(n as usize);
        }
        let p = (self.pos - self.base) as usize;
        if n > 0 {
            if self.data.len() < p {
                self.data.resize(p, 0);
            }
            let overlap = (self.data.len() - p).min(n);
            self.data[p..p + overlap].copy_from_slice(&buf[..overlap]);
            self.data.extend_from_slice(&buf[overlap..n]);
        }
        if self.record {
            self.log.push(Op {
                kind: OpKind::Write,
                pos: self.pos,
                req: buf.len() as u64,
                res: Some(n as u64),
                data: if self.keep_data { buf[..n].to_vec() } else { Vec::new() },
            });
        }
        self.pos += n as u64;
        Ok(n)
    }

    pub fn do_seek(&mut self, to: SeekFrom) -> Result<u64> {
        let target: Option<u64> = match to {
            SeekFrom::Start(p) => Some(p),
            SeekFrom::End(d) => (self.base + self.data.len() as u64).checked_add_signed(d),
            SeekFrom::Current(d) => self.pos.checked_add_signed(d),
        };
        self.gate(OpKind::Seek, target.unwrap_or(u64::MAX))?;
        let Some(t) = target else {
            if self.record {
                self.log.push(Op {
                    kind: OpKind::Seek,
                    pos: self.pos,
                    req: u64::MAX,
                    res: None,
                    data: Vec::new(),
                });
            }
            return Err(Error::new(
                ErrorKind::InvalidInput,
                "invalid seek to a negative or overflowing position",
            ));
        };
        if self.record {
            self.log.push(Op {
                kind: OpKind::Seek,
                pos: self.pos,
                req: t,
                res: Some(t),
                data: Vec::new(),
            });
        }
        self.pos = t;
        Ok(t)
    }

    pub fn do_flush(&mut self, kind: OpKind) -> Result<()> {
        self.gate(kind, 0)?;
        if self.record {
            self.log.push(Op {
                kind,
                pos: self.pos,
                req: 0,
                res: Some(0),
                data: Vec::new(),
            });
        }
        Ok(())
    }

    /// byte ranges [a,b) that reads actually returned
    pub fn read_ranges(&self) -> Vec<(u64, u64)> {
        self.log
            .iter()
            .filter(|o| o.kind == OpKind::Read)
            .filter_map(|o| o.res.filter(|n| *n > 0).map(|n| (o.pos, o.pos + n)))
            .collect()
    }
}

// ------------------------------------------------------------------ sync

pub struct Inst {
    pub c: Core,
}

impl Inst {
    pub fn new(data: Vec<u8>) -> Self {
        Self { c: Core::new(data) }
    }
    pub fn recording(data: Vec<u8>) -> Self {
        let mut s = Self::new(data);
        s.c.record = true;
        s
    }
}

impl Read for Inst {
    fn read(&mut self, buf: &mut [u8]) -> Result<usize> {
        self.c.do_read(buf)
    }
}

impl Write for Inst {
    fn write(&mut self, buf: &[u8]) -> Result<usize> {
        self.c.do_write(buf)
    }
    fn flush(&mut self) -> Result<()> {
        self.c.do_flush(OpKind::Flush)
    }
}

impl Seek for Inst {
    fn seek(&mut self, pos: SeekFrom) -> Result<u64> {
        self.c.do_seek(pos)
    }
}

// ------------------------------------------------------------------ async

pub struct AInst {
    pub c: Core,
    pub pend: Pend,
    pub polls: u64,
    pub pendings: u64,
    just_pended: u32,
}

impl AInst {
    pub fn new(data: Vec<u8>) -> Self {
        Self {
            c: Core::new(data),
            pend: Pend::Never,
            polls: 0,
            pendings: 0,
            just_pended: 0,
        }
    }
    pub fn recording(data: Vec<u8>) -> Self {
        let mut s = Self::new(data);
        s.c.record = true;
        s
    }

    /// Decide whether this poll answers Pending. The waker is always woken first: cooperative
    /// code can only be resumed through its waker.
    fn pending(&mut self, cx: &mut Context<'_>) -> bool {
        self.polls += 1;
        let p = match &mut self.pend {
            Pend::Never => false,
            Pend::Alternate => self.just_pended == 0,
            Pend::Bits(b, i) => {
                if *i < b.len() {
                    *i += 1;
                    b[*i - 1]
                } else {
                    false
                }
            }
            Pend::Random(r, num, den) => self.just_pended < 3 && r.chance(*num, *den),
        };
        if p {
            self.just_pended += 1;
            self.pendings += 1;
            cx.waker().wake_by_ref();
        } else {
            self.just_pended = 0;
        }
        p
    }
}

impl AsyncRead for AInst {
    fn poll_read(mut self: Pin<&mut Self>, cx: &mut Context<'_>, buf: &mut [u8]) -> Poll<Result<usize>> {
        if self.pending(cx) {
            return Poll::Pending;
        }
        Poll::Ready(self.c.do_read(buf))
    }
}

impl AsyncWrite for AInst {
    fn poll_write(mut self: Pin<&mut Self>, cx: &mut Context<'_>, buf: &[u8]) -> Poll<Result<usize>> {
        if self.pending(cx) {
            return Poll::Pending;
        }
        Poll::Ready(self.c.do_write(buf))
    }
    fn poll_flush(mut self: Pin<&mut Self>, cx: &mut Context<'_>) -> Poll<Result<()>> {
        if self.pending(cx) {
            return Poll::Pending;
        }
        Poll::Ready(self.c.do_flush(OpKind::Flush))
    }
    /// Recorded but NOT terminal: the async writers of the crate under test close the caller's
    /// stream in the middle of an archive (codec adapters close their inner writer), which
    /// `futures::io::Cursor` and file streams tolerate and no property forbids.
    fn poll_close(mut self: Pin<&mut Self>, cx: &mut Context<'_>) -> Poll<Result<()>> {
        if self.pending(cx) {
            return Poll::Pending;
        }
        Poll::Ready(self.c.do_flush(OpKind::Close))
    }
}

impl AsyncSeek for AInst {
    fn poll_seek(mut self: Pin<&mut Self>, cx: &mut Context<'_>, pos: SeekFrom) -> Poll<Result<u64>> {
        if self.pending(cx) {
            return Poll::Pending;
        }
        Poll::Ready(self.c.do_seek(pos))
    }
}

// ------------------------------------------------------------------ op replay (C17)

/// Apply the first `k` operations of a recorded write log (with data) to a fresh image.
pub fn replay_image(log: &[Op], k: usize) -> Vec<u8> {
    let mut img: Vec<u8> = Vec::new();
    for op in &log[..k.min(log.len())] {
        apply_op(&mut img, op);
    }
    img
}

pub fn apply_op(img: &mut Vec<u8>, op: &Op) {
    if op.kind == OpKind::Write {
        if let Some(n) = op.res {
            let n = n as usize;
            if n == 0 {
                return;
            }
            let p = op.pos as usize;
            if img.len() < p {
                img.resize(p, 0);
            }
            let overlap = (img.len() - p).min(n);
            img[p..p + overlap].copy_from_slice(&op.data[..overlap]);
            img.extend_from_slice(&op.data[overlap..n]);
        }
    }
}

/// Self-test of the instruments against plain cursors (run by `pmverif selftest`).
pub fn selftest() -> std::result::Result<(), String> {
    use std::io::Cursor;
    let mut rng = Rng::new(7);
    for round in 0..200u64 {
        let n = rng.usize(0, 300);
        let data = rng.bytes(n);
        // fragmenting reader returns the bytes it was given
        let mut i = Inst::new(data.clone());
        i.c.rsched = Sched::Random(Rng::new(round), 7);
        let mut back = Vec::new();
        i.read_to_end(&mut back).map_err(|e| e.to_string())?;
        if back != data {
            return Err(String::from("fragmenting reader altered data"));
        }
        // writer semantics equal Cursor<Vec<u8>> under random seeks/writes
        let mut a = Inst::recording(Vec::new());
        a.c.keep_data = true;
        a.c.wsched = Sched::Random(Rng::new(round + 1), 5);
        let mut b = Cursor::new(Vec::<u8>::new());
        for _ in 0..20 {
            if rng.chance(1, 3) {
                let p = rng.range(0, 400);
                a.seek(SeekFrom::Start(p)).map_err(|e| e.to_string())?;
                b.seek(SeekFrom::Start(p)).map_err(|e| e.to_string())?;
            } else {
                let wn = rng.usize(1, 40);
                let w = rng.bytes(wn);
                a.write_all(&w).map_err(|e| e.to_string())?;
                b.write_all(&w).map_err(|e| e.to_string())?;
            }
            if a.c.pos != b.position() {
                return Err(String::from("position differs from Cursor"));
            }
        }
        if &a.c.data != b.get_ref() {
            return Err(String::from("image differs from Cursor"));
        }
        if replay_image(&a.c.log, a.c.log.len()) != a.c.data {
            return Err(String::from("op replay does not reproduce the image"));
        }
        // fail-stop: op k and later fail, earlier succeed
        let mut f = Inst::new(data.clone());
        f.c.fail_from = Some(2);
        let mut buf = [0u8; 4];
        let r0 = f.read(&mut buf).is_ok();
        let r1 = f.seek(SeekFrom::Start(0)).is_ok();
        let r2 = f.read(&mut buf).is_err();
        let r3 = f.seek(SeekFrom::Start(0)).is_err();
        if !(r0 && r1 && r2 && r3) {
            return Err(String::from("fail-stop semantics wrong"));
        }
    }
    // async twin with pending returns same data
    let data = Rng::new(3).bytes(5000);
    let mut a = AInst::new(data.clone());
    a.pend = Pend::Random(Rng::new(9), 1, 2);
    a.c.rsched = Sched::Fixed(13);
    let mut back = Vec::new();
    futures::executor::block_on(futures::AsyncReadExt::read_to_end(&mut a, &mut back))
        .map_err(|e| e.to_string())?;
    if back != data {
        return Err(String::from("async fragmenting reader altered data"));
    }
    if a.pendings == 0 {
        return Err(String::from("async twin never answered Pending"));
    }
    Ok(())
}

// ------------------------------------------------------------------ shared handles
// The reader is moved into / mutably borrowed by the archive; a shared handle lets the monitor
// look at the operation log between API calls (single-threaded use; the mutex is never contended).

use std::sync::{Arc, Mutex};

#[derive(Clone)]
pub struct Shared {
    pub core: Arc<Mutex<Core>>,
}

impl Shared {
    pub fn recording(data: Vec<u8>) -> Self {
        let mut c = Core::new(data);
        c.record = true;
        Self {
            core: Arc::new(Mutex::new(c)),
        }
    }
    pub fn log_len(&self) -> usize {
        self.core.lock().expect("lock").log.len()
    }
    pub fn ops_since(&self, from: usize) -> Vec<Op> {
        self.core.lock().expect("lock").log[from..].to_vec()
    }
}

impl Read for Shared {
    fn read(&mut self, buf: &mut [u8]) -> Result<usize> {
        self.core.lock().expect("lock").do_read(buf)
    }
}

impl Seek for Shared {
    fn seek(&mut self, pos: SeekFrom) -> Result<u64> {
        self.core.lock().expect("lock").do_seek(pos)
    }
}

#[derive(Clone)]
pub struct SharedA {
    pub core: Arc<Mutex<Core>>,
    pub alternate: bool,
    flip: bool,
}

impl SharedA {
    pub fn recording(data: Vec<u8>, alternate: bool) -> Self {
        let mut c = Core::new(data);
        c.record = true;
        Self {
            core: Arc::new(Mutex::new(c)),
            alternate,
            flip: false,
        }
    }
    pub fn log_len(&self) -> usize {
        self.core.lock().expect("lock").log.len()
    }
    pub fn ops_since(&self, from: usize) -> Vec<Op> {
        self.core.lock().expect("lock").log[from..].to_vec()
    }
    fn pend(&mut self, cx: &mut Context<'_>) -> bool {
        if !self.alternate {
            return false;
        }
        self.flip = !self.flip;
        if self.flip {
            cx.waker().wake_by_ref();
        }
        self.flip
    }
}

impl AsyncRead for SharedA {
    fn poll_read(mut self: Pin<&mut Self>, cx: &mut Context<'_>, buf: &mut [u8]) -> Poll<Result<usize>> {
        if self.pend(cx) {
            return Poll::Pending;
        }
        Poll::Ready(self.core.lock().expect("lock").do_read(buf))
    }
}

impl AsyncSeek for SharedA {
    fn poll_seek(mut self: Pin<&mut Self>, cx: &mut Context<'_>, pos: SeekFrom) -> Poll<Result<u64>> {
        if self.pend(cx) {
            return Poll::Pending;
        }
        Poll::Ready(self.core.lock().expect("lock").do_seek(pos))
    }
}
