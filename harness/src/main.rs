//! pmverif — runtime monitors for pmtiles2 (one sub-command per property check).
//!
//! usage: pmverif <check> --tier quick|thorough --seed N --shard I --nshards N --out FILE
//!                [--progress FILE] [--only CASE] [--resume-after CASE] [--profile NAME]

mod checks;
mod gen;
mod hostile;
mod io;
mod obs;
mod refimpl;
mod rng;

use obs::{Ctx, Tier};

fn main() {
    let args: Vec<String> = std::env::args().collect();
    if args.len() < 2 {
        eprintln!("usage: pmverif <check> [options]");
        std::process::exit(3);
    }
    let check = args[1].clone();
    if check == "noop" {
        return;
    }
    if check == "selftest" {
        match io::selftest().and_then(|()| checks::selftest()) {
            Ok(()) => {
                println!("selftest ok");
                return;
            }
            Err(e) => {
                eprintln!("selftest FAILED: {e}");
                std::process::exit(3);
            }
        }
    }
    let mut tier = Tier::Quick;
    let mut seed = 1u64;
    let mut shard = 0u64;
    let mut nshards = 1u64;
    let mut out = String::new();
    let mut progress = None;
    let mut only = None;
    let mut resume = None;
    let mut profile = String::from("checked");
    let mut sub = String::new();
    let mut i = 2;
    while i < args.len() {
        let v = args.get(i + 1).cloned().unwrap_or_default();
        match args[i].as_str() {
            "--tier" => tier = if v == "thorough" { Tier::Thorough } else { Tier::Quick },
            "--seed" => seed = v.parse().unwrap_or(1),
            "--shard" => shard = v.parse().unwrap_or(0),
            "--nshards" => nshards = v.parse().unwrap_or(1),
            "--out" => out = v,
            "--progress" => progress = Some(v),
            "--only" => only = v.parse().ok(),
            "--resume-after" => resume = v.parse().ok(),
            "--profile" => profile = v,
            "--sub" => sub = v,
            other => {
                eprintln!("unknown option {other}");
                std::process::exit(3);
            }
        }
        i += 2;
    }
    obs::install_panic_hook();
    let prop = check.to_uppercase();
    let mut ctx = Ctx::new(&prop, tier, seed, shard, nshards);
    ctx.only = only;
    ctx.resume_after = resume;
    ctx.profile = profile;
    ctx.out = out;
    ctx.sub = sub;
    if let Some(p) = progress {
        ctx.set_progress(&p);
    }
    match obs::guard(|| checks::run(&check, &mut ctx)) {
        Ok(true) => {}
        Ok(false) => {
            eprintln!("unknown check {check}");
            std::process::exit(3);
        }
        Err(p) => {
            // a panic that no guard caught: library-origin => refutation, harness-origin => inconclusive
            ctx.panic("unguarded-call", &p, serde_json::json!({"note": "panic escaped to the top level"}));
            ctx.inconclusive(&format!("run ended early by a panic ({} at {}:{})", p.msg, p.file, p.line));
        }
    }
    ctx.finish();
}
