//! Observation context shared by all checks: counters, distinct-case fingerprints, samples,
//! violations (with signatures), panic capture and crash-attribution progress file.

use serde_json::{json, Map, Value};
use std::cell::RefCell;
use std::collections::{BTreeMap, HashSet};
use std::io::Write;
use std::os::unix::fs::FileExt;
use std::panic::{catch_unwind, AssertUnwindSafe};

#[derive(Clone, Copy, Debug, PartialEq, Eq)]
pub enum Tier {
    Quick,
    Thorough,
}

#[derive(Clone, Debug)]
pub struct PanicInfo {
    pub msg: String,
    pub file: String,
    pub line: u32,
    /// true if the first non-std frame belongs to the harness (=> harness error, inconclusive)
    pub harness: bool,
    /// basename of the first frame inside the crate under test (or dependency) – stable detail
    pub frame: String,
}

thread_local! {
    static LAST_PANIC: RefCell<Option<PanicInfo>> = const { RefCell::new(None) };
}

fn classify(bt: &str) -> (bool, String) {
    // Walk the symbolised frames from the panic site outwards; the first frame that belongs to
    // either the harness or the crate under test decides the attribution.
    let mut lines = bt.lines().peekable();
    while let Some(l) = lines.next() {
        let t = l.trim_start();
        // frame header lines look like "12: pmtiles2::directory::..."
        let Some(pos) = t.find(": ") else { continue };
        if !t[..pos].chars().all(|c| c.is_ascii_digit()) {
            continue;
        }
        let sym = &t[pos + 2..];
        let at = lines
            .peek()
            .map(|n| n.trim_start())
            .filter(|n| n.starts_with("at "))
            .map(|n| n[3..].to_string())
            .unwrap_or_default();
        // the panic hook's own frames (this file) are not evidence of anything
        if sym.contains("pmverif::obs") || at.contains("src/obs.rs") {
            continue;
        }
        // Source paths decide (a library generic instantiated with a harness stream type carries both
        // crate names in its symbol); symbol prefixes are the fallback when a frame has no path.
        // (the harness crate is compiled from its own directory: its frames read `./src/...`; the crate under
        // test is a path dependency: `/…/repo/src/...`; dependencies: `~/.cargo/registry/...`; std: `/rustc/...`)
        let path_har = at.starts_with("./src/") || at.starts_with("src/") || at.contains("harness/src/");
        let path_lib = !path_har && at.contains("/repo/src/");
        let s0 = sym.trim_start_matches('<');
        let lib = path_lib || (!path_har && s0.starts_with("pmtiles2::"));
        let har = path_har || (!path_lib && s0.starts_with("pmverif::"));
        if lib {
            let f = at.rsplit('/').next().unwrap_or("").split(':').next().unwrap_or("").to_string();
            return (false, f);
        }
        if har {
            return (true, String::new());
        }
    }
    (false, String::from("?"))
}

pub fn install_panic_hook() {
    std::panic::set_hook(Box::new(|info| {
        let msg = if let Some(s) = info.payload().downcast_ref::<&str>() {
            (*s).to_string()
        } else if let Some(s) = info.payload().downcast_ref::<String>() {
            s.clone()
        } else {
            String::from("<non-string panic payload>")
        };
        let (file, line) = info
            .location()
            .map(|l| (l.file().to_string(), l.line()))
            .unwrap_or_default();
        let bt = std::backtrace::Backtrace::force_capture().to_string();
        let (mut harness, mut frame) = classify(&bt);
        if file.starts_with("src/") || file.starts_with("./src/") || file.contains("harness/src/") {
            harness = true;
        } else if file.contains("/repo/src/") {
            // the panic site itself lies in the crate under test
            harness = false;
            frame = file.rsplit('/').next().unwrap_or("").to_string();
        }
        if frame.is_empty() || frame == "?" {
            frame = file.rsplit('/').next().unwrap_or("").to_string();
        }
        if std::env::var_os("PMVERIF_VERBOSE_PANIC").is_some() {
            eprintln!("panic: {msg} at {file}:{line}\n{bt}");
        }
        LAST_PANIC.with(|p| {
            *p.borrow_mut() = Some(PanicInfo {
                msg,
                file,
                line,
                harness,
                frame,
            });
        });
    }));
}

/// Run `f`, converting a panic into `Err(PanicInfo)`.
pub fn guard<T>(f: impl FnOnce() -> T) -> Result<T, PanicInfo> {
    LAST_PANIC.with(|p| *p.borrow_mut() = None);
    match catch_unwind(AssertUnwindSafe(f)) {
        Ok(v) => Ok(v),
        Err(_) => Err(LAST_PANIC.with(|p| p.borrow_mut().take()).unwrap_or(PanicInfo {
            msg: String::from("<panic without hook info>"),
            file: String::new(),
            line: 0,
            harness: false,
            frame: String::new(),
        })),
    }
}

/// Strip volatile parts (numbers) out of a message so that it can serve in a signature.
pub fn stable(msg: &str) -> String {
    let mut out = String::with_capacity(msg.len());
    let mut last_digit = false;
    for c in msg.chars() {
        if c.is_ascii_digit() {
            if !last_digit {
                out.push('#');
            }
            last_digit = true;
        } else {
            last_digit = false;
            out.push(c);
        }
    }
    if out.len() > 160 {
        let mut cut = 160;
        while !out.is_char_boundary(cut) {
            cut -= 1;
        }
        out.truncate(cut);
    }
    out
}

#[derive(Clone, Debug)]
pub struct Violation {
    pub signature: String,
    pub what: String,
    pub replay: Value,
    pub count: u64,
}

pub struct Ctx {
    pub prop: String,
    pub tier: Tier,
    pub seed: u64,
    pub shard: u64,
    pub nshards: u64,
    pub only: Option<u64>,
    pub resume_after: Option<u64>,
    pub profile: String,
    counters: BTreeMap<String, u64>,
    fps: HashSet<u64>,
    enumerated: u64,
    evaluations: u64,
    samples: Vec<Value>,
    violations: BTreeMap<String, Violation>,
    inconclusive: Vec<String>,
    progress: Option<std::fs::File>,
    cur_case: u64,
    extra: Map<String, Value>,
    pub out: String,
    pub sub: String,
    case_t0: std::time::Instant,
    timing: bool,
}

impl Ctx {
    pub fn new(prop: &str, tier: Tier, seed: u64, shard: u64, nshards: u64) -> Self {
        Self {
            prop: prop.to_string(),
            tier,
            seed,
            shard,
            nshards: nshards.max(1),
            only: None,
            resume_after: None,
            profile: String::from("checked"),
            counters: BTreeMap::new(),
            fps: HashSet::new(),
            enumerated: 0,
            evaluations: 0,
            samples: Vec::new(),
            violations: BTreeMap::new(),
            inconclusive: Vec::new(),
            progress: None,
            cur_case: 0,
            extra: Map::new(),
            out: String::new(),
            sub: String::new(),
            case_t0: std::time::Instant::now(),
            timing: std::env::var_os("PMVERIF_TIMING").is_some(),
        }
    }

    pub fn set_progress(&mut self, path: &str) {
        self.progress = std::fs::OpenOptions::new()
            .create(true)
            .write(true)
            .truncate(false)
            .open(path)
            .ok();
    }

    /// Quick-sized workload? The sanitizer / stock-release passes of the thorough tier (sub =
    /// "asan" / "plain") repeat the quick-sized workload under a different build.
    pub fn quick(&self) -> bool {
        self.tier == Tier::Quick || self.sub == "asan" || self.sub == "plain"
    }

    /// pick a size by tier
    pub fn n(&self, quick: u64, thorough: u64) -> u64 {
        if self.quick() {
            quick
        } else {
            thorough
        }
    }

    /// Does case `idx` belong to this worker?
    pub fn mine(&self, idx: u64) -> bool {
        if let Some(o) = self.only {
            return idx == o;
        }
        if let Some(r) = self.resume_after {
            if idx <= r {
                return false;
            }
        }
        idx % self.nshards == self.shard
    }

    /// Shard membership that ignores `resume_after` (for enumerations that are not crash-prone).
    pub fn rng(&self, label: &str, idx: u64) -> crate::rng::Rng {
        crate::rng::Rng::derive(self.seed, label, idx)
    }

    /// Record in the progress file that case `idx` is executing (state 1) — used by the driver
    /// to attribute a worker death (abort, stack overflow) to the exact case.
    pub fn begin(&mut self, idx: u64) {
        self.cur_case = idx;
        self.case_t0 = std::time::Instant::now();
        if let Some(f) = &self.progress {
            let mut buf = [0u8; 16];
            buf[..8].copy_from_slice(&idx.to_le_bytes());
            buf[8..].copy_from_slice(&1u64.to_le_bytes());
            let _ = f.write_all_at(&buf, 0);
        }
    }

    pub fn end(&mut self, idx: u64) {
        if self.timing && self.case_t0.elapsed().as_millis() > 500 {
            eprintln!("case {idx}: {} ms", self.case_t0.elapsed().as_millis());
        }
        if let Some(f) = &self.progress {
            let mut buf = [0u8; 16];
            buf[..8].copy_from_slice(&idx.to_le_bytes());
            buf[8..].copy_from_slice(&2u64.to_le_bytes());
            let _ = f.write_all_at(&buf, 0);
        }
    }

    pub fn cur_case(&self) -> u64 {
        self.cur_case
    }

    pub fn count(&mut self, key: &str) {
        self.add(key, 1);
    }

    pub fn add(&mut self, key: &str, n: u64) {
        if let Some(v) = self.counters.get_mut(key) {
            *v = v.saturating_add(n);
        } else {
            self.counters.insert(key.to_string(), n);
        }
    }

    pub fn max(&mut self, key: &str, v: u64) {
        let k = format!("max.{key}");
        let e = self.counters.entry(k).or_insert(0);
        if v > *e {
            *e = v;
        }
    }

    pub fn get(&self, key: &str) -> u64 {
        self.counters.get(key).copied().unwrap_or(0)
    }

    /// One executed case. `fp` = fingerprint of the materialised case; it is only remembered
    /// when the case is non-trivial by the check's rule.
    pub fn case(&mut self, fp: u64, nontrivial: bool) {
        self.evaluations += 1;
        if nontrivial {
            self.fps.insert(fp);
        }
    }

    /// `n` cases of an enumeration that is distinct by construction (disjoint across shards).
    pub fn enumerated(&mut self, n: u64, nontrivial: u64) {
        self.evaluations = self.evaluations.saturating_add(n);
        self.enumerated = self.enumerated.saturating_add(nontrivial);
    }

    pub fn sample(&mut self, v: Value) {
        if self.samples.len() < 4 {
            self.samples.push(v);
        }
    }

    pub fn want_sample(&self) -> bool {
        self.samples.len() < 4
    }

    pub fn extra(&mut self, key: &str, v: Value) {
        self.extra.insert(key.to_string(), v);
    }

    pub fn inconclusive(&mut self, reason: &str) {
        if self.inconclusive.len() < 20 && !self.inconclusive.iter().any(|r| r == reason) {
            self.inconclusive.push(reason.to_string());
        }
    }

    /// Record a refutation. `api`/`class`/`detail` form the stable signature; `what` is the
    /// human-readable description; `mat` the materialised case for the replay file.
    pub fn violation(&mut self, api: &str, class: &str, detail: &str, what: &str, mat: Value) {
        let signature = format!("{}|{}|{}|{}", self.prop, api, class, stable(detail));
        self.add(&format!("violations.{class}"), 1);
        if let Some(v) = self.violations.get_mut(&signature) {
            v.count += 1;
            return;
        }
        if self.violations.len() >= 200 {
            return;
        }
        let replay = json!({
            "property": self.prop,
            "tier": if self.quick() {"quick"} else {"thorough"},
            "seed": self.seed,
            "case": self.cur_case,
            "profile": self.profile,
            "api": api,
            "class": class,
            "what": what,
            "materialised": mat,
        });
        self.violations.insert(
            signature.clone(),
            Violation {
                signature,
                what: what.to_string(),
                replay,
                count: 1,
            },
        );
        // a new signature is rare: checkpoint so that it survives a later death of this worker
        self.write_doc(false);
    }

    /// A library call panicked: harness-origin panics are inconclusive, others are violations.
    pub fn panic(&mut self, api: &str, p: &PanicInfo, mat: Value) {
        if p.harness {
            self.inconclusive(&format!(
                "harness panic during {api}: {} at {}:{}",
                p.msg, p.file, p.line
            ));
            self.count("harness_panics");
            return;
        }
        let detail = format!("{} @{}", p.msg, p.frame);
        let what = format!("{api} panicked: {} ({}:{})", p.msg, p.file, p.line);
        self.violation(api, "panic", &detail, &what, mat);
    }

    pub fn finish(self) {
        let fp_path = format!("{}.fp", self.out);
        {
            let mut f = std::io::BufWriter::new(std::fs::File::create(&fp_path).expect("fp file"));
            for fp in &self.fps {
                f.write_all(&fp.to_le_bytes()).expect("fp write");
            }
        }
        self.write_doc(true);
    }

    fn write_doc(&self, complete: bool) {
        if self.out.is_empty() {
            return;
        }
        let out = if complete { self.out.clone() } else { format!("{}.partial", self.out) };
        let viols: Vec<Value> = self
            .violations
            .values()
            .map(|v| {
                json!({"signature": v.signature, "what": v.what, "count": v.count, "replay": v.replay})
            })
            .collect();
        let doc = json!({
            "property": self.prop,
            "shard": self.shard,
            "nshards": self.nshards,
            "evaluations": self.evaluations,
            "distinct_fp": self.fps.len(),
            "enumerated_distinct": self.enumerated,
            "counters": self.counters,
            "samples": self.samples,
            "violations": viols,
            "inconclusive": self.inconclusive,
            "extra": self.extra,
            "complete": complete,
        });
        let tmp = format!("{out}.tmp");
        std::fs::write(&tmp, serde_json::to_vec(&doc).expect("json")).expect("write out");
        std::fs::rename(&tmp, &out).expect("rename out");
    }
}

pub fn hex(data: &[u8]) -> String {
    const H: &[u8; 16] = b"0123456789abcdef";
    let mut s = String::with_capacity(data.len() * 2);
    for &b in data {
        s.push(H[(b >> 4) as usize] as char);
        s.push(H[(b & 15) as usize] as char);
    }
    s
}

/// Hex of at most `max` bytes (plus a marker with the full length), for replay files.
pub fn hex_cap(data: &[u8], max: usize) -> Value {
    if data.len() <= max {
        json!({"len": data.len(), "hex": hex(data)})
    } else {
        json!({"len": data.len(), "hex_prefix": hex(&data[..max]), "fingerprint": crate::rng::hash_bytes(data)})
    }
}
