//! Independent implementation of the PMTiles v3 container format, written from the
//! specification (https://github.com/protomaps/PMTiles/blob/main/spec/v3/spec.md).
//! Shares no code with `pmtiles2`; only the codec crates (flate2 / brotli / zstd) are common,
//! and they are called directly with their own parameters.

use std::collections::{BTreeMap, HashSet};
use std::io::{Read, Write};

pub const C_UNKNOWN: u8 = 0;
pub const C_NONE: u8 = 1;
pub const C_GZIP: u8 = 2;
pub const C_BROTLI: u8 = 3;
pub const C_ZSTD: u8 = 4;
pub const CODECS: [u8; 4] = [C_NONE, C_GZIP, C_BROTLI, C_ZSTD];

pub fn codec_name(c: u8) -> &'static str {
    match c {
        0 => "unknown",
        1 => "none",
        2 => "gzip",
        3 => "brotli",
        4 => "zstd",
        _ => "invalid",
    }
}

// ---------------------------------------------------------------- varint

pub fn put_varint(out: &mut Vec<u8>, mut v: u64) {
    while v >= 0x80 {
        out.push((v as u8 & 0x7f) | 0x80);
        v >>= 7;
    }
    out.push(v as u8);
}

pub fn varint_len(v: u64) -> usize {
    let mut n = 1;
    let mut v = v;
    while v >= 0x80 {
        v >>= 7;
        n += 1;
    }
    n
}

pub fn get_varint(data: &[u8], pos: &mut usize) -> Result<u64, String> {
    let mut result: u64 = 0;
    let mut shift = 0u32;
    loop {
        let Some(&b) = data.get(*pos) else {
            return Err(String::from("varint: unexpected end"));
        };
        *pos += 1;
        if shift == 63 && (b & 0x7e) != 0 {
            return Err(String::from("varint: overflows 64 bit"));
        }
        result |= u64::from(b & 0x7f) << shift;
        if b & 0x80 == 0 {
            return Ok(result);
        }
        shift += 7;
        if shift > 63 {
            return Err(String::from("varint: too long"));
        }
    }
}

// ---------------------------------------------------------------- directory

#[derive(Clone, Copy, Debug, PartialEq, Eq, Hash)]
pub struct REntry {
    pub tile_id: u64,
    pub offset: u64,
    pub length: u32,
    pub run_length: u32,
}

/// Spec encoding: count, delta IDs, run lengths, lengths, offsets (0 = contiguous with previous
/// entry, only for index > 0; else offset + 1).
pub fn dir_encode(entries: &[REntry]) -> Vec<u8> {
    let mut out = Vec::with_capacity(entries.len() * 6 + 4);
    put_varint(&mut out, entries.len() as u64);
    let mut last = 0u64;
    for e in entries {
        put_varint(&mut out, e.tile_id.wrapping_sub(last));
        last = e.tile_id;
    }
    for e in entries {
        put_varint(&mut out, u64::from(e.run_length));
    }
    for e in entries {
        put_varint(&mut out, u64::from(e.length));
    }
    for (i, e) in entries.iter().enumerate() {
        if i > 0
            && entries[i - 1]
                .offset
                .checked_add(u64::from(entries[i - 1].length))
                == Some(e.offset)
        {
            put_varint(&mut out, 0);
        } else {
            put_varint(&mut out, e.offset.wrapping_add(1));
        }
    }
    out
}

/// Exact encoded size of a directory with `Compression::None`.
pub fn dir_encoded_len(entries: &[REntry]) -> usize {
    dir_encode(entries).len()
}

/// Returns the entries and the number of input bytes consumed.
pub fn dir_decode(data: &[u8]) -> Result<(Vec<REntry>, usize), String> {
    let mut pos = 0usize;
    let n = get_varint(data, &mut pos)?;
    // every entry needs at least 4 bytes
    if n > (data.len() as u64) {
        return Err(format!("directory: entry count {n} exceeds input size"));
    }
    let n = n as usize;
    let mut entries = vec![
        REntry {
            tile_id: 0,
            offset: 0,
            length: 0,
            run_length: 0
        };
        n
    ];
    let mut last = 0u64;
    for e in entries.iter_mut() {
        let d = get_varint(data, &mut pos)?;
        last = last
            .checked_add(d)
            .ok_or_else(|| String::from("directory: tile id overflows"))?;
        e.tile_id = last;
    }
    for e in entries.iter_mut() {
        let v = get_varint(data, &mut pos)?;
        e.run_length = u32::try_from(v).map_err(|_| String::from("directory: run length > u32"))?;
    }
    for e in entries.iter_mut() {
        let v = get_varint(data, &mut pos)?;
        e.length = u32::try_from(v).map_err(|_| String::from("directory: length > u32"))?;
    }
    for i in 0..n {
        let v = get_varint(data, &mut pos)?;
        if v == 0 && i > 0 {
            entries[i].offset = entries[i - 1]
                .offset
                .checked_add(u64::from(entries[i - 1].length))
                .ok_or_else(|| String::from("directory: offset overflows"))?;
        } else if v == 0 {
            return Err(String::from("directory: first offset is 0"));
        } else {
            entries[i].offset = v - 1;
        }
    }
    Ok((entries, pos))
}

// ---------------------------------------------------------------- header

#[derive(Clone, Copy, Debug, PartialEq, Eq)]
pub struct RHeader {
    pub root_offset: u64,
    pub root_length: u64,
    pub meta_offset: u64,
    pub meta_length: u64,
    pub leaf_offset: u64,
    pub leaf_length: u64,
    pub data_offset: u64,
    pub data_length: u64,
    pub n_addressed: u64,
    pub n_entries: u64,
    pub n_contents: u64,
    pub clustered: u8,
    pub internal_compression: u8,
    pub tile_compression: u8,
    pub tile_type: u8,
    pub min_zoom: u8,
    pub max_zoom: u8,
    pub min_lon: i32,
    pub min_lat: i32,
    pub max_lon: i32,
    pub max_lat: i32,
    pub center_zoom: u8,
    pub center_lon: i32,
    pub center_lat: i32,
}

impl Default for RHeader {
    fn default() -> Self {
        Self {
            root_offset: 127,
            root_length: 0,
            meta_offset: 127,
            meta_length: 0,
            leaf_offset: 127,
            leaf_length: 0,
            data_offset: 127,
            data_length: 0,
            n_addressed: 0,
            n_entries: 0,
            n_contents: 0,
            clustered: 0,
            internal_compression: C_NONE,
            tile_compression: C_NONE,
            tile_type: 0,
            min_zoom: 0,
            max_zoom: 0,
            min_lon: 0,
            min_lat: 0,
            max_lon: 0,
            max_lat: 0,
            center_zoom: 0,
            center_lon: 0,
            center_lat: 0,
        }
    }
}

pub fn header_pack(h: &RHeader) -> [u8; 127] {
    let mut b = [0u8; 127];
    b[0..7].copy_from_slice(b"PMTiles");
    b[7] = 3;
    let u64s = [
        h.root_offset,
        h.root_length,
        h.meta_offset,
        h.meta_length,
        h.leaf_offset,
        h.leaf_length,
        h.data_offset,
        h.data_length,
        h.n_addressed,
        h.n_entries,
        h.n_contents,
    ];
    for (i, v) in u64s.iter().enumerate() {
        b[8 + i * 8..16 + i * 8].copy_from_slice(&v.to_le_bytes());
    }
    b[96] = h.clustered;
    b[97] = h.internal_compression;
    b[98] = h.tile_compression;
    b[99] = h.tile_type;
    b[100] = h.min_zoom;
    b[101] = h.max_zoom;
    b[102..106].copy_from_slice(&h.min_lon.to_le_bytes());
    b[106..110].copy_from_slice(&h.min_lat.to_le_bytes());
    b[110..114].copy_from_slice(&h.max_lon.to_le_bytes());
    b[114..118].copy_from_slice(&h.max_lat.to_le_bytes());
    b[118] = h.center_zoom;
    b[119..123].copy_from_slice(&h.center_lon.to_le_bytes());
    b[123..127].copy_from_slice(&h.center_lat.to_le_bytes());
    b
}

fn rd_u64(b: &[u8], at: usize) -> u64 {
    let mut a = [0u8; 8];
    a.copy_from_slice(&b[at..at + 8]);
    u64::from_le_bytes(a)
}

fn rd_i32(b: &[u8], at: usize) -> i32 {
    let mut a = [0u8; 4];
    a.copy_from_slice(&b[at..at + 4]);
    i32::from_le_bytes(a)
}

/// Structural unpack (magic + version checked; enum codes returned raw).
pub fn header_unpack(b: &[u8]) -> Result<RHeader, String> {
    if b.len() < 127 {
        return Err(format!("header: only {} bytes", b.len()));
    }
    if &b[0..7] != b"PMTiles" {
        return Err(String::from("header: wrong magic"));
    }
    if b[7] != 3 {
        return Err(format!("header: version {}", b[7]));
    }
    Ok(RHeader {
        root_offset: rd_u64(b, 8),
        root_length: rd_u64(b, 16),
        meta_offset: rd_u64(b, 24),
        meta_length: rd_u64(b, 32),
        leaf_offset: rd_u64(b, 40),
        leaf_length: rd_u64(b, 48),
        data_offset: rd_u64(b, 56),
        data_length: rd_u64(b, 64),
        n_addressed: rd_u64(b, 72),
        n_entries: rd_u64(b, 80),
        n_contents: rd_u64(b, 88),
        clustered: b[96],
        internal_compression: b[97],
        tile_compression: b[98],
        tile_type: b[99],
        min_zoom: b[100],
        max_zoom: b[101],
        min_lon: rd_i32(b, 102),
        min_lat: rd_i32(b, 106),
        max_lon: rd_i32(b, 110),
        max_lat: rd_i32(b, 114),
        center_zoom: b[118],
        center_lon: rd_i32(b, 119),
        center_lat: rd_i32(b, 123),
    })
}

/// Is this a header the spec calls valid (known enum codes, boolean clustered flag)?
pub fn header_codes_valid(h: &RHeader) -> bool {
    h.clustered <= 1 && h.internal_compression <= 4 && h.tile_compression <= 4 && h.tile_type <= 5
}

// ---------------------------------------------------------------- Hilbert tile ids

/// First tile id of zoom `z` = (4^z - 1) / 3. Valid for z <= 32.
pub fn zoom_base(z: u8) -> u64 {
    debug_assert!(z <= 32);
    (((1u128 << (2 * u32::from(z))) - 1) / 3) as u64
}

/// The spec's (z,x,y) -> id (Hilbert curve, rotate/flip formulation).
pub fn zxy_to_id(z: u8, x: u64, y: u64) -> u64 {
    assert!(z <= 31);
    if z == 0 {
        return 0;
    }
    let mut tx = x;
    let mut ty = y;
    let mut d: u64 = 0;
    let mut a = i32::from(z) - 1;
    while a >= 0 {
        let s: u64 = 1 << a;
        let rx = u64::from(tx & s != 0);
        let ry = u64::from(ty & s != 0);
        d += s * s * ((3 * rx) ^ ry);
        // rotate within the sub-square of size s
        tx &= s - 1;
        ty &= s - 1;
        if ry == 0 {
            if rx == 1 {
                tx = s - 1 - tx;
                ty = s - 1 - ty;
            }
            std::mem::swap(&mut tx, &mut ty);
        }
        a -= 1;
    }
    zoom_base(z) + d
}

/// The spec's id -> (z,x,y); None for ids at or beyond the first id of zoom 32.
pub fn id_to_zxy(id: u64) -> Option<(u8, u64, u64)> {
    if id >= zoom_base(32) {
        return None;
    }
    let mut z = 0u8;
    while zoom_base(z + 1) <= id {
        z += 1;
    }
    let mut t = id - zoom_base(z);
    let n: u64 = 1 << z;
    let (mut x, mut y) = (0u64, 0u64);
    let mut s: u64 = 1;
    while s < n {
        let rx = 1 & (t / 2);
        let ry = 1 & (t ^ rx);
        if ry == 0 {
            if rx == 1 {
                x = s - 1 - x;
                y = s - 1 - y;
            }
            std::mem::swap(&mut x, &mut y);
        }
        x += s * rx;
        y += s * ry;
        t /= 4;
        s *= 2;
    }
    Some((z, x, y))
}

// ---------------------------------------------------------------- codecs (called directly)

#[derive(Clone, Debug, Default)]
pub struct CodecParams {
    pub gzip_level: u32,
    pub gzip_mtime: u32,
    pub gzip_name: Option<Vec<u8>>,
    pub gzip_comment: Option<Vec<u8>>,
    pub gzip_extra: Option<Vec<u8>>,
    pub brotli_quality: u32,
    pub brotli_lgwin: u32,
    pub zstd_level: i32,
    pub zstd_checksum: bool,
    pub zstd_contentsize: bool,
    /// Some(w): streaming encoder with an explicit window of 2^w bytes and no pledged size, so that the frame header
    /// carries a window descriptor of that size (what `zstd --long=w` / the ultra levels produce)
    pub zstd_window_log: Option<u32>,
}

impl CodecParams {
    pub fn plain() -> Self {
        Self {
            gzip_level: 6,
            gzip_mtime: 0,
            gzip_name: None,
            gzip_comment: None,
            gzip_extra: None,
            brotli_quality: 5,
            brotli_lgwin: 22,
            zstd_level: 3,
            zstd_checksum: false,
            zstd_contentsize: true,
            zstd_window_log: None,
        }
    }

    pub fn random(rng: &mut crate::rng::Rng) -> Self {
        let name = |rng: &mut crate::rng::Rng| -> Option<Vec<u8>> {
            if rng.chance(1, 3) {
                let n = rng.usize(1, 12);
                Some((0..n).map(|_| rng.range(b'a'.into(), b'z'.into()) as u8).collect())
            } else {
                None
            }
        };
        Self {
            gzip_level: rng.range(1, 9) as u32,
            gzip_mtime: if rng.chance(1, 2) { rng.next() as u32 } else { 0 },
            gzip_name: name(rng),
            gzip_comment: name(rng),
            gzip_extra: if rng.chance(1, 4) { let n = rng.usize(1, 20); Some(rng.bytes(n)) } else { None },
            brotli_quality: rng.range(1, 9) as u32,
            // large windows make every decode allocate and clear a ring buffer of that size: mostly small ones
            brotli_lgwin: if rng.chance(1, 40) { rng.range(21, 24) as u32 } else { rng.range(16, 20) as u32 },
            zstd_level: *rng.pick(&[1, 3, 9, 19]),
            zstd_checksum: rng.chance(1, 2),
            zstd_contentsize: rng.chance(1, 2),
            zstd_window_log: if rng.chance(1, 10) { Some(*rng.pick(&[23u32, 24, 25, 27])) } else { None },
        }
    }
}

pub fn codec_compress(codec: u8, data: &[u8], p: &CodecParams) -> Result<Vec<u8>, String> {
    match codec {
        C_NONE => Ok(data.to_vec()),
        C_GZIP => {
            let mut b = flate2::GzBuilder::new().mtime(p.gzip_mtime);
            if let Some(n) = &p.gzip_name {
                b = b.filename(n.clone());
            }
            if let Some(c) = &p.gzip_comment {
                b = b.comment(c.clone());
            }
            if let Some(e) = &p.gzip_extra {
                b = b.extra(e.clone());
            }
            let mut w = b.write(Vec::new(), flate2::Compression::new(p.gzip_level.clamp(0, 9)));
            w.write_all(data).map_err(|e| e.to_string())?;
            w.finish().map_err(|e| e.to_string())
        }
        C_BROTLI => {
            let mut out = Vec::new();
            {
                let mut w = brotli::CompressorWriter::new(
                    &mut out,
                    4096,
                    p.brotli_quality.clamp(0, 11),
                    p.brotli_lgwin.clamp(10, 24),
                );
                w.write_all(data).map_err(|e| e.to_string())?;
                w.flush().map_err(|e| e.to_string())?;
            }
            Ok(out)
        }
        C_ZSTD => {
            let mut enc = zstd::stream::write::Encoder::new(Vec::new(), p.zstd_level)
                .map_err(|e| e.to_string())?;
            enc.include_checksum(p.zstd_checksum).map_err(|e| e.to_string())?;
            enc.include_contentsize(p.zstd_contentsize).map_err(|e| e.to_string())?;
            if let Some(w) = p.zstd_window_log {
                enc.set_parameter(zstd::stream::raw::CParameter::WindowLog(w)).map_err(|e| e.to_string())?;
            } else if p.zstd_contentsize {
                enc.set_pledged_src_size(Some(data.len() as u64)).map_err(|e| e.to_string())?;
            }
            enc.write_all(data).map_err(|e| e.to_string())?;
            enc.finish().map_err(|e| e.to_string())
        }
        _ => Err(format!("codec {codec} not supported")),
    }
}

/// Decompress one codec stream; returns the plain bytes and the number of input bytes the
/// decoder consumed (so that "exact byte length" of a section can be judged).
pub fn codec_decompress_consumed(codec: u8, data: &[u8], limit: usize) -> Result<(Vec<u8>, usize), String> {
    match codec {
        C_NONE => Ok((data.to_vec(), data.len())),
        C_GZIP => {
            let mut d = flate2::bufread::GzDecoder::new(data);
            let mut out = Vec::new();
            (&mut d).take(limit as u64 + 1).read_to_end(&mut out).map_err(|e| format!("gzip: {e}"))?;
            if out.len() > limit {
                return Err(String::from("gzip: output exceeds limit"));
            }
            let rest = d.into_inner();
            Ok((out, data.len() - rest.len()))
        }
        C_BROTLI => brotli_decompress_consumed(data, limit),
        C_ZSTD => {
            let mut d = zstd::stream::read::Decoder::with_buffer(data)
                .map_err(|e| format!("zstd: {e}"))?
                .single_frame();
            let mut out = Vec::new();
            (&mut d).take(limit as u64 + 1).read_to_end(&mut out).map_err(|e| format!("zstd: {e}"))?;
            if out.len() > limit {
                return Err(String::from("zstd: output exceeds limit"));
            }
            let rest = d.finish();
            Ok((out, data.len() - rest.len()))
        }
        _ => Err(format!("codec {codec} not supported")),
    }
}

fn brotli_decompress_consumed(data: &[u8], limit: usize) -> Result<(Vec<u8>, usize), String> {
    use brotli::{BrotliDecompressStream, BrotliResult, BrotliState};
    let mut state = BrotliState::new(
        brotli::enc::StandardAlloc::default(),
        brotli::enc::StandardAlloc::default(),
        brotli::enc::StandardAlloc::default(),
    );
    let mut out = Vec::new();
    let mut buf = vec![0u8; 65536];
    let mut avail_in = data.len();
    let mut in_off = 0usize;
    let mut total_out = 0usize;
    loop {
        let mut avail_out = buf.len();
        let mut out_off = 0usize;
        let r = BrotliDecompressStream(
            &mut avail_in,
            &mut in_off,
            data,
            &mut avail_out,
            &mut out_off,
            &mut buf,
            &mut total_out,
            &mut state,
        );
        out.extend_from_slice(&buf[..out_off]);
        if out.len() > limit {
            return Err(String::from("brotli: output exceeds limit"));
        }
        match r {
            BrotliResult::ResultSuccess => return Ok((out, in_off)),
            BrotliResult::NeedsMoreOutput => continue,
            BrotliResult::NeedsMoreInput => return Err(String::from("brotli: truncated stream")),
            BrotliResult::ResultFailure => return Err(String::from("brotli: corrupt stream")),
        }
    }
}

pub fn codec_decompress(codec: u8, data: &[u8], limit: usize) -> Result<Vec<u8>, String> {
    codec_decompress_consumed(codec, data, limit).map(|(v, _)| v)
}

// ---------------------------------------------------------------- walker / validator

pub const DECOMP_LIMIT: usize = 256 << 20;

#[derive(Clone, Debug, Default)]
pub struct Walk {
    /// tile id -> (offset relative to tile data section, length)
    pub tiles: BTreeMap<u64, (u64, u32)>,
    /// flattened tile entries in visiting order
    pub entries: Vec<REntry>,
    /// (offset in leaf section, length, first id, decoded entries, consumed plain bytes == plain len)
    pub leaves_visited: u64,
    pub dirs_visited: u64,
    pub max_depth: u32,
    /// leaf pointers as found in non-leaf directories: (depth of the pointing dir, pointer)
    pub pointers: Vec<(u32, REntry)>,
}

#[derive(Clone, Debug, PartialEq, Eq)]
pub enum WalkStop {
    /// the input is malformed (spec-invalid) — message
    Invalid(String),
    /// directories legitimately expand past the budget
    OverBudget(String),
    /// pointer structure is cyclic or deeper than `max_depth`
    Cyclic(String),
}

pub struct WalkLimits {
    pub max_tiles: u64,
    pub max_dirs: u64,
    pub max_depth: u32,
}

impl Default for WalkLimits {
    fn default() -> Self {
        Self {
            max_tiles: 2_000_000,
            max_dirs: 100_000,
            max_depth: 16,
        }
    }
}

fn section<'a>(file: &'a [u8], off: u64, len: u64, what: &str) -> Result<&'a [u8], WalkStop> {
    let end = off
        .checked_add(len)
        .ok_or_else(|| WalkStop::Invalid(format!("{what}: offset+length overflows")))?;
    if end > file.len() as u64 {
        return Err(WalkStop::Invalid(format!(
            "{what}: [{off},{end}) outside file of {} bytes",
            file.len()
        )));
    }
    Ok(&file[off as usize..end as usize])
}

#[allow(clippy::too_many_arguments)]
fn walk_dir(
    file: &[u8],
    h: &RHeader,
    off: u64,
    len: u64,
    depth: u32,
    path: &mut Vec<(u64, u64)>,
    lim: &WalkLimits,
    w: &mut Walk,
    strict_consumed: bool,
) -> Result<(), WalkStop> {
    if depth > lim.max_depth {
        return Err(WalkStop::Cyclic(format!("directory nesting deeper than {}", lim.max_depth)));
    }
    if path.contains(&(off, len)) {
        return Err(WalkStop::Cyclic(String::from("leaf pointer cycle")));
    }
    w.dirs_visited += 1;
    if w.dirs_visited > lim.max_dirs {
        return Err(WalkStop::OverBudget(String::from("too many directory visits")));
    }
    w.max_depth = w.max_depth.max(depth);
    let raw = section(file, off, len, "directory")?;
    let (plain, consumed) = codec_decompress_consumed(h.internal_compression, raw, DECOMP_LIMIT)
        .map_err(WalkStop::Invalid)?;
    if strict_consumed && consumed != raw.len() {
        return Err(WalkStop::Invalid(format!(
            "directory at {off}: codec consumed {consumed} of {} bytes",
            raw.len()
        )));
    }
    let (entries, used) = dir_decode(&plain).map_err(WalkStop::Invalid)?;
    if strict_consumed && used != plain.len() {
        return Err(WalkStop::Invalid(format!(
            "directory at {off}: decoder consumed {used} of {} plain bytes",
            plain.len()
        )));
    }
    path.push((off, len));
    for e in &entries {
        if e.length == 0 {
            return Err(WalkStop::Invalid(String::from("entry with length 0")));
        }
        if e.run_length == 0 {
            w.pointers.push((depth, *e));
            w.leaves_visited += 1;
            let lo = h
                .leaf_offset
                .checked_add(e.offset)
                .ok_or_else(|| WalkStop::Invalid(String::from("leaf offset overflows")))?;
            walk_dir(file, h, lo, u64::from(e.length), depth + 1, path, lim, w, strict_consumed)?;
        } else {
            // the last id of the run must exist (a run may end on id 2^64-1, it cannot go beyond)
            let last = e
                .tile_id
                .checked_add(u64::from(e.run_length) - 1)
                .ok_or_else(|| WalkStop::Invalid(String::from("run reaches beyond tile id 2^64-1")))?;
            if w.tiles.len() as u64 + u64::from(e.run_length) > lim.max_tiles {
                return Err(WalkStop::OverBudget(String::from("too many addressed tiles")));
            }
            w.entries.push(*e);
            for id in e.tile_id..=last {
                w.tiles.insert(id, (e.offset, e.length));
            }
        }
    }
    path.pop();
    Ok(())
}

/// Resolve root + leaves of an archive into a tile map. Doubles as the classifier of hostile
/// inputs (Invalid / OverBudget / Cyclic).
pub fn walk(file: &[u8], lim: &WalkLimits, strict_consumed: bool) -> Result<(RHeader, Walk), WalkStop> {
    let h = header_unpack(file).map_err(WalkStop::Invalid)?;
    if h.internal_compression == C_UNKNOWN || h.internal_compression > 4 {
        return Err(WalkStop::Invalid(String::from("internal compression unknown")));
    }
    let mut w = Walk::default();
    let mut path = Vec::new();
    walk_dir(file, &h, h.root_offset, h.root_length, 0, &mut path, lim, &mut w, strict_consumed)?;
    Ok((h, w))
}

#[derive(Clone, Debug, Default)]
pub struct ValidateOpts {
    /// a metadata section of length 0 is accepted (foreign archives); library output never has it
    pub allow_empty_metadata: bool,
    /// counters must equal recomputed values (library output); else 0 ("unknown") is accepted too
    pub strict_counters: bool,
    /// each leaf pointer's tile id must be its leaf's first tile id (what C06 demands of the writer)
    pub pointer_is_first_id: bool,
    /// the codec streams must be consumed exactly by their sections
    pub strict_consumed: bool,
}

#[derive(Clone, Debug)]
pub struct Validated {
    pub header: RHeader,
    pub walk: Walk,
    pub metadata: serde_json::Map<String, serde_json::Value>,
    /// id -> (absolute offset, length)
    pub abs: BTreeMap<u64, (u64, u32)>,
    pub distinct_contents: u64,
}

/// The C02 well-formedness judge. Encodes exactly the clauses of the property statement.
pub fn validate(file: &[u8], o: &ValidateOpts) -> Result<Validated, String> {
    let h = header_unpack(file)?;
    if !header_codes_valid(&h) {
        return Err(String::from("header: unknown enum code or non-boolean clustered flag"));
    }
    if h.internal_compression == C_UNKNOWN {
        return Err(String::from("header: internal compression unknown"));
    }
    let flen = file.len() as u64;
    // sections inside the file
    let secs = [
        ("root directory", h.root_offset, h.root_length),
        ("metadata", h.meta_offset, h.meta_length),
        ("leaf directories", h.leaf_offset, h.leaf_length),
        ("tile data", h.data_offset, h.data_length),
    ];
    let mut ivs: Vec<(&str, u64, u64)> = vec![("header", 0, 127)];
    for (name, off, len) in secs {
        let end = off.checked_add(len).ok_or_else(|| format!("{name}: offset+length overflows"))?;
        if end > flen {
            return Err(format!("{name}: [{off},{end}) outside file of {flen} bytes"));
        }
        if len > 0 {
            ivs.push((name, off, end));
        }
    }
    // mutually disjoint
    for i in 0..ivs.len() {
        for j in i + 1..ivs.len() {
            let (a, b) = (ivs[i], ivs[j]);
            if a.1 < b.2 && b.1 < a.2 {
                return Err(format!("sections overlap: {} [{},{}) and {} [{},{})", a.0, a.1, a.2, b.0, b.1, b.2));
            }
        }
    }
    // header + root within the first 16 KiB
    if h.root_offset + h.root_length > 16384 {
        return Err(format!(
            "root directory [{},{}) not within the first 16384 bytes",
            h.root_offset,
            h.root_offset + h.root_length
        ));
    }
    if h.root_length == 0 {
        return Err(String::from("root directory has length 0"));
    }
    // directories
    let (_, w) = walk(file, &WalkLimits { max_depth: 4, ..WalkLimits::default() }, o.strict_consumed)
        .map_err(|e| format!("{e:?}"))?;
    // leaf pointers inside the leaf section
    for (_, p) in &w.pointers {
        let end = p.offset + u64::from(p.length);
        if end > h.leaf_length {
            return Err(format!("leaf pointer [{},{}) outside leaf section of {} bytes", p.offset, end, h.leaf_length));
        }
    }
    // entries strictly ascending and non-overlapping (in flattened visiting order)
    let mut next_free = 0u128;
    let mut first = true;
    for e in &w.entries {
        if !first && u128::from(e.tile_id) < next_free {
            return Err(format!("entries not strictly ascending / overlapping at tile id {}", e.tile_id));
        }
        first = false;
        next_free = u128::from(e.tile_id) + u128::from(e.run_length);
        let end = e.offset.checked_add(u64::from(e.length)).ok_or("tile range overflows")?;
        if end > h.data_length {
            return Err(format!("tile range [{},{}) outside tile data section of {} bytes", e.offset, end, h.data_length));
        }
    }
    // pointer ordering: each pointer's id <= first id reachable through it, and ids keep ascending
    // across pointers (guaranteed by the flattened check above); optional exact first-id clause
    if o.pointer_is_first_id {
        check_pointer_first_ids(file, &h)?;
    }
    // metadata
    let metadata = if h.meta_length == 0 {
        if !o.allow_empty_metadata {
            return Err(String::from("metadata section is empty (not a JSON object)"));
        }
        serde_json::Map::new()
    } else {
        let raw = &file[h.meta_offset as usize..(h.meta_offset + h.meta_length) as usize];
        let (plain, consumed) = codec_decompress_consumed(h.internal_compression, raw, DECOMP_LIMIT)?;
        if o.strict_consumed && consumed != raw.len() {
            return Err(format!("metadata: codec consumed {consumed} of {} bytes", raw.len()));
        }
        let v: serde_json::Value = json_parse(&plain).map_err(|e| format!("metadata: not JSON: {e}"))?;
        match v {
            serde_json::Value::Object(m) => m,
            _ => return Err(String::from("metadata: JSON value is not an object")),
        }
    };
    // counters
    let addressed: u64 = w.entries.iter().map(|e| u64::from(e.run_length)).sum();
    let n_entries = w.entries.len() as u64;
    let distinct: HashSet<u64> = w.entries.iter().map(|e| e.offset).collect();
    let n_contents = distinct.len() as u64;
    let chk = |name: &str, stored: u64, real: u64| -> Result<(), String> {
        if stored == real || (!o.strict_counters && stored == 0) {
            Ok(())
        } else {
            Err(format!("counter {name}: header says {stored}, directories say {real}"))
        }
    };
    chk("addressed tiles", h.n_addressed, addressed)?;
    chk("tile entries", h.n_entries, n_entries)?;
    chk("tile contents", h.n_contents, n_contents)?;
    // clustered flag
    if h.clustered == 1 {
        // a back-reference is any entry starting at an offset that was used before (also with another length)
        let mut seen: HashSet<u64> = HashSet::new();
        let mut max_end = 0u64;
        for e in &w.entries {
            if seen.contains(&e.offset) {
                continue;
            }
            if e.offset < max_end {
                return Err(format!(
                    "clustered flag set but tile {} is stored at offset {} before already-written data (end {})",
                    e.tile_id, e.offset, max_end
                ));
            }
            seen.insert(e.offset);
            max_end = e.offset + u64::from(e.length);
        }
    }
    let mut abs = BTreeMap::new();
    for (id, (off, len)) in &w.tiles {
        abs.insert(*id, (h.data_offset + off, *len));
    }
    Ok(Validated {
        header: h,
        walk: w,
        metadata,
        abs,
        distinct_contents: n_contents,
    })
}

fn read_dir_at(file: &[u8], h: &RHeader, off: u64, len: u64) -> Result<Vec<REntry>, String> {
    let end = off.checked_add(len).ok_or("dir range overflows")?;
    if end > file.len() as u64 {
        return Err(String::from("dir outside file"));
    }
    let plain = codec_decompress(h.internal_compression, &file[off as usize..end as usize], DECOMP_LIMIT)?;
    Ok(dir_decode(&plain)?.0)
}

fn check_pointer_first_ids(file: &[u8], h: &RHeader) -> Result<(), String> {
    fn rec(file: &[u8], h: &RHeader, off: u64, len: u64, depth: u32) -> Result<(), String> {
        if depth > 4 {
            return Err(String::from("too deep"));
        }
        let entries = read_dir_at(file, h, off, len)?;
        for e in &entries {
            if e.run_length == 0 {
                let leaf = read_dir_at(file, h, h.leaf_offset + e.offset, u64::from(e.length))?;
                match leaf.first() {
                    Some(f) if f.tile_id == e.tile_id => {}
                    Some(f) => {
                        return Err(format!(
                            "leaf pointer carries tile id {} but its leaf starts at {}",
                            e.tile_id, f.tile_id
                        ))
                    }
                    None => return Err(String::from("leaf pointer to an empty leaf")),
                }
                rec(file, h, h.leaf_offset + e.offset, u64::from(e.length), depth + 1)?;
            }
        }
        Ok(())
    }
    rec(file, h, h.root_offset, h.root_length, 0)
}

/// The specification's search: last entry with tile_id <= id.
pub fn find_tile(entries: &[REntry], id: u64) -> Option<REntry> {
    let mut m: i64 = 0;
    let mut n: i64 = entries.len() as i64 - 1;
    while m <= n {
        let k = (n + m) >> 1;
        let e = entries[k as usize];
        if id > e.tile_id {
            m = k + 1;
        } else if id < e.tile_id {
            n = k - 1;
        } else {
            return Some(e);
        }
    }
    if n >= 0 {
        let e = entries[n as usize];
        if e.run_length == 0 {
            return Some(e);
        }
        if id - e.tile_id < u64::from(e.run_length) {
            return Some(e);
        }
    }
    None
}

/// The specification's lookup procedure (root, then up to 3 leaf levels), returning the bytes.
pub fn lookup(file: &[u8], h: &RHeader, id: u64) -> Result<Option<Vec<u8>>, String> {
    let mut off = h.root_offset;
    let mut len = h.root_length;
    for _depth in 0..=3 {
        let entries = read_dir_at(file, h, off, len)?;
        match find_tile(&entries, id) {
            None => return Ok(None),
            Some(e) if e.run_length > 0 => {
                let a = h.data_offset + e.offset;
                let b = a + u64::from(e.length);
                if b > file.len() as u64 {
                    return Err(String::from("tile outside file"));
                }
                return Ok(Some(file[a as usize..b as usize].to_vec()));
            }
            Some(e) => {
                off = h.leaf_offset + e.offset;
                len = u64::from(e.length);
            }
        }
    }
    Err(String::from("lookup: maximum directory depth exceeded"))
}

/// Linear reference for Directory::find_entry_for_tile_id: the unique non-leaf entry whose run
/// covers `id`.
pub fn find_covering(entries: &[REntry], id: u64) -> Option<REntry> {
    entries
        .iter()
        .find(|e| e.run_length > 0 && id >= e.tile_id && id - e.tile_id < u64::from(e.run_length))
        .copied()
}

// ---------------------------------------------------------------- independent JSON reader

/// A small RFC 8259 parser, independent of serde_json's parser (numbers go through Rust's
/// correctly rounded `str::parse::<f64>`), producing `serde_json::Value` for comparison only.
pub fn json_parse(text: &[u8]) -> Result<serde_json::Value, String> {
    let s = std::str::from_utf8(text).map_err(|e| format!("metadata is not UTF-8: {e}"))?;
    let b = s.as_bytes();
    let mut pos = 0usize;
    let v = json_value(b, &mut pos, 0)?;
    json_ws(b, &mut pos);
    if pos != b.len() {
        return Err(format!("trailing characters at byte {pos}"));
    }
    Ok(v)
}

fn json_ws(b: &[u8], pos: &mut usize) {
    while *pos < b.len() && matches!(b[*pos], b' ' | b'\t' | b'\n' | b'\r') {
        *pos += 1;
    }
}

fn json_value(b: &[u8], pos: &mut usize, depth: u32) -> Result<serde_json::Value, String> {
    use serde_json::Value;
    if depth > 512 {
        return Err(String::from("nesting too deep"));
    }
    json_ws(b, pos);
    let Some(&c) = b.get(*pos) else { return Err(String::from("unexpected end")) };
    match c {
        b'{' => {
            *pos += 1;
            let mut m = serde_json::Map::new();
            json_ws(b, pos);
            if b.get(*pos) == Some(&b'}') {
                *pos += 1;
                return Ok(Value::Object(m));
            }
            loop {
                json_ws(b, pos);
                let k = json_string(b, pos)?;
                json_ws(b, pos);
                if b.get(*pos) != Some(&b':') {
                    return Err(format!("expected ':' at byte {pos}"));
                }
                *pos += 1;
                let v = json_value(b, pos, depth + 1)?;
                m.insert(k, v);
                json_ws(b, pos);
                match b.get(*pos) {
                    Some(b',') => *pos += 1,
                    Some(b'}') => {
                        *pos += 1;
                        return Ok(Value::Object(m));
                    }
                    _ => return Err(format!("expected ',' or '}}' at byte {pos}")),
                }
            }
        }
        b'[' => {
            *pos += 1;
            let mut a = Vec::new();
            json_ws(b, pos);
            if b.get(*pos) == Some(&b']') {
                *pos += 1;
                return Ok(Value::Array(a));
            }
            loop {
                a.push(json_value(b, pos, depth + 1)?);
                json_ws(b, pos);
                match b.get(*pos) {
                    Some(b',') => *pos += 1,
                    Some(b']') => {
                        *pos += 1;
                        return Ok(Value::Array(a));
                    }
                    _ => return Err(format!("expected ',' or ']' at byte {pos}")),
                }
            }
        }
        b'"' => Ok(Value::String(json_string(b, pos)?)),
        b't' if b[*pos..].starts_with(b"true") => {
            *pos += 4;
            Ok(Value::Bool(true))
        }
        b'f' if b[*pos..].starts_with(b"false") => {
            *pos += 5;
            Ok(Value::Bool(false))
        }
        b'n' if b[*pos..].starts_with(b"null") => {
            *pos += 4;
            Ok(Value::Null)
        }
        b'-' | b'0'..=b'9' => {
            let start = *pos;
            while *pos < b.len() && matches!(b[*pos], b'-' | b'+' | b'.' | b'e' | b'E' | b'0'..=b'9') {
                *pos += 1;
            }
            let tok = std::str::from_utf8(&b[start..*pos]).map_err(|e| e.to_string())?;
            let is_float = tok.contains(['.', 'e', 'E']);
            if !is_float {
                if let Ok(u) = tok.parse::<u64>() {
                    return Ok(Value::Number(u.into()));
                }
                if let Ok(i) = tok.parse::<i64>() {
                    if tok != "-0" {
                        return Ok(Value::Number(i.into()));
                    }
                }
            }
            let f: f64 = tok.parse().map_err(|_| format!("bad number {tok}"))?;
            serde_json::Number::from_f64(f).map(Value::Number).ok_or_else(|| format!("number {tok} out of range"))
        }
        _ => Err(format!("unexpected character at byte {pos}")),
    }
}

fn json_hex4(b: &[u8], pos: &mut usize) -> Result<u32, String> {
    if *pos + 4 > b.len() {
        return Err(String::from("short \\u escape"));
    }
    let s = std::str::from_utf8(&b[*pos..*pos + 4]).map_err(|e| e.to_string())?;
    *pos += 4;
    u32::from_str_radix(s, 16).map_err(|e| e.to_string())
}

fn json_string(b: &[u8], pos: &mut usize) -> Result<String, String> {
    if b.get(*pos) != Some(&b'"') {
        return Err(format!("expected string at byte {pos}"));
    }
    *pos += 1;
    let mut out: Vec<u8> = Vec::new();
    loop {
        let Some(&c) = b.get(*pos) else { return Err(String::from("unterminated string")) };
        *pos += 1;
        match c {
            b'"' => return String::from_utf8(out).map_err(|e| e.to_string()),
            b'\\' => {
                let Some(&e) = b.get(*pos) else { return Err(String::from("unterminated escape")) };
                *pos += 1;
                match e {
                    b'"' => out.push(b'"'),
                    b'\\' => out.push(b'\\'),
                    b'/' => out.push(b'/'),
                    b'b' => out.push(8),
                    b'f' => out.push(12),
                    b'n' => out.push(b'\n'),
                    b'r' => out.push(b'\r'),
                    b't' => out.push(b'\t'),
                    b'u' => {
                        let mut cp = json_hex4(b, pos)?;
                        if (0xD800..0xDC00).contains(&cp) {
                            if b.get(*pos) == Some(&b'\\') && b.get(*pos + 1) == Some(&b'u') {
                                *pos += 2;
                                let lo = json_hex4(b, pos)?;
                                if !(0xDC00..0xE000).contains(&lo) {
                                    return Err(String::from("bad low surrogate"));
                                }
                                cp = 0x10000 + ((cp - 0xD800) << 10) + (lo - 0xDC00);
                            } else {
                                return Err(String::from("lone surrogate"));
                            }
                        }
                        let ch = char::from_u32(cp).ok_or("bad code point")?;
                        let mut buf = [0u8; 4];
                        out.extend_from_slice(ch.encode_utf8(&mut buf).as_bytes());
                    }
                    _ => return Err(String::from("bad escape")),
                }
            }
            0..=0x1f => return Err(String::from("control character in string")),
            _ => out.push(c),
        }
    }
}
