//! Small deterministic PRNG (splitmix64 seeding + xoshiro256**). No external crates.

#[derive(Clone, Debug)]
pub struct Rng {
    s: [u64; 4],
}

pub fn splitmix(x: &mut u64) -> u64 {
    *x = x.wrapping_add(0x9E37_79B9_7F4A_7C15);
    let mut z = *x;
    z = (z ^ (z >> 30)).wrapping_mul(0xBF58_476D_1CE4_E5B9);
    z = (z ^ (z >> 27)).wrapping_mul(0x94D0_49BB_1331_11EB);
    z ^ (z >> 31)
}

/// FNV-1a style 64-bit mix used for fingerprints and for deriving sub-seeds from strings.
pub fn hash_bytes(data: &[u8]) -> u64 {
    let mut h: u64 = 0xcbf2_9ce4_8422_2325;
    for &b in data {
        h ^= u64::from(b);
        h = h.wrapping_mul(0x0000_0100_0000_01B3);
    }
    // final avalanche
    let mut x = h;
    splitmix(&mut x)
}

pub fn hash_u64s(vals: &[u64]) -> u64 {
    let mut h: u64 = 0x1234_5678_9abc_def0;
    for &v in vals {
        h ^= v;
        h = h.wrapping_mul(0x9E37_79B9_7F4A_7C15);
        h ^= h >> 29;
    }
    let mut x = h;
    splitmix(&mut x)
}

impl Rng {
    pub fn new(seed: u64) -> Self {
        let mut x = seed;
        let s = [
            splitmix(&mut x),
            splitmix(&mut x),
            splitmix(&mut x),
            splitmix(&mut x),
        ];
        Self { s }
    }

    /// Derive an independent stream for (seed, label, index).
    pub fn derive(seed: u64, label: &str, index: u64) -> Self {
        Self::new(hash_u64s(&[seed, hash_bytes(label.as_bytes()), index]))
    }

    pub fn next(&mut self) -> u64 {
        let result = self.s[1].wrapping_mul(5).rotate_left(7).wrapping_mul(9);
        let t = self.s[1] << 17;
        self.s[2] ^= self.s[0];
        self.s[3] ^= self.s[1];
        self.s[1] ^= self.s[2];
        self.s[0] ^= self.s[3];
        self.s[2] ^= t;
        self.s[3] = self.s[3].rotate_left(45);
        result
    }

    /// Uniform in [0, n). n must be > 0.
    pub fn below(&mut self, n: u64) -> u64 {
        debug_assert!(n > 0);
        // multiply-shift; bias is negligible for our purposes
        ((u128::from(self.next()) * u128::from(n)) >> 64) as u64
    }

    /// Uniform in [lo, hi] inclusive.
    pub fn range(&mut self, lo: u64, hi: u64) -> u64 {
        if hi <= lo {
            return lo;
        }
        let span = hi - lo;
        if span == u64::MAX {
            return self.next();
        }
        lo + self.below(span + 1)
    }

    pub fn usize(&mut self, lo: usize, hi: usize) -> usize {
        self.range(lo as u64, hi as u64) as usize
    }

    pub fn chance(&mut self, num: u64, den: u64) -> bool {
        self.below(den) < num
    }

    pub fn f64(&mut self) -> f64 {
        (self.next() >> 11) as f64 / (1u64 << 53) as f64
    }

    /// log-uniform integer in [lo, hi] (lo >= 1)
    pub fn log_range(&mut self, lo: u64, hi: u64) -> u64 {
        let l = (lo.max(1) as f64).ln();
        let h = (hi.max(1) as f64).ln();
        let v = (l + (h - l) * self.f64()).exp();
        (v as u64).clamp(lo, hi)
    }

    pub fn pick<'a, T>(&mut self, items: &'a [T]) -> &'a T {
        &items[self.below(items.len() as u64) as usize]
    }

    pub fn bytes(&mut self, n: usize) -> Vec<u8> {
        let mut v = Vec::with_capacity(n + 8);
        while v.len() < n {
            v.extend_from_slice(&self.next().to_le_bytes());
        }
        v.truncate(n);
        v
    }

    pub fn shuffle<T>(&mut self, items: &mut [T]) {
        for i in (1..items.len()).rev() {
            let j = self.below(i as u64 + 1) as usize;
            items.swap(i, j);
        }
    }

    /// A u64 biased towards boundary values.
    pub fn boundary_u64(&mut self) -> u64 {
        const B: [u64; 24] = [
            0,
            1,
            2,
            126,
            127,
            128,
            129,
            255,
            256,
            16383,
            16384,
            (1 << 31) - 1,
            1 << 31,
            (1 << 32) - 1,
            1 << 32,
            (1 << 32) + 1,
            1 << 62,
            (1 << 63) - 1,
            1 << 63,
            (1 << 63) + 1,
            u64::MAX - 1,
            u64::MAX,
            1 << 40,
            1 << 60,
        ];
        match self.below(4) {
            0 => *self.pick(&B),
            1 => self.next(),
            2 => self.next() >> self.below(64),
            _ => self.below(1000),
        }
    }
}
