"""Human-written texts for MANIFEST.json (level text, trusted base, technique) per claimed property."""

HOOK_COMMITS = ["c35610e"]

# every property is claimed: each can be refuted by a finite observable execution (DESIGN.md §9)
NOT_APPLICABLE = []

TEXTS = {
    "C01": {
        "level_text": "Round-trip runtime monitor at the API boundary: generated logical archives (0 to ~6*10^4 tiles, ids over the whole valid domain, contents 1 B-100 KiB with exact/near duplicates, random JSON-object metadata, all tile types/compressions, 4 internal compressions, boundary coordinates) are written by the sync or async writer and opened again; every added tile is fetched and compared, ~100 absent ids per archive are probed, metadata and header settings are compared with what the generator set (coordinates: nearest multiple of 1e-7, judged on the stored integer parsed independently). Holds on the archives executed.",
        "level_note": "Trusted: the generator's own map as oracle, refimpl header_unpack for the stored coordinates. Assumes no 64-bit content-hash collision among generated contents (it would be reported). Contents above 100 KiB and >6*10^4 tiles are not generated.",
        "technique": "runtime monitoring of write->read round trips against the generator's own model (randomised + class-steered inputs)",
    },
    "C02": {
        "level_text": "Output-validation monitor: EVERY file produced by the sync and async writers in the workload is parsed by a reader written independently from the v3 specification (Rust refimpl: header, sections inside the file and disjoint, root within 16 KiB, codec streams consumed exactly, strictly ascending non-overlapping entries inside tile data, leaf pointers = leaf first ids, JSON-object metadata via an independent JSON parser, the three counters recomputed, clustered flag, spec lookup for present and absent ids) and a sample of none/gzip files additionally by an unrelated stdlib-only Python reader.",
        "level_note": "Trusted: harness/src/refimpl.rs and pyref/pmtiles_ref.py (self-tested; cross-checked against each other and the upstream fixtures); flate2/brotli/zstd shared with the library as codec back ends.",
        "technique": "runtime monitoring of every written file by two independent spec-derived readers",
    },
    "C03": {
        "level_text": "Differential runtime monitor on foreign inputs: archives are emitted by the harness' own spec-level writer (never by pmtiles2) with permuted sections, gaps, directory depth 1-3+, run lengths, shared/back-referencing/shuffled offsets, empty metadata, absent counters and codec streams produced by the upstream codecs with foreign parameters and framing variants; each is first accepted by the reference validator, then opened through from_bytes / from_reader / from_async_reader and compared with the writer's ground truth (id set, bytes at tile-data offset + entry offset, header settings, metadata, read_directories map, find_entry_for_tile_id vs a linear reference). The three upstream fixtures are included.",
        "level_note": "Trusted: the foreign writer's ground truth (validated by the reference reader before use; a disagreement is reported as inconclusive, not as a violation).",
        "technique": "differential runtime monitoring against an independent spec-level writer's ground truth",
    },
    "C04": {
        "level_text": "Lock-step sequential-model monitor over edit histories: every sequence of <=5 (quick) / <=6 (thorough) operations over a 12-symbol alphabet (adjacent ids, colliding contents, save+reopen sync/async) from two start states, plus long random histories over up to 10^3 ids with periodic save+reopen in all codecs; after every operation the whole observable state (lookups by id and by coordinates, listing, count) is compared with a BTreeMap model and the in-crate store report (feature verif) must show no internal disagreement. Evidence includes the op x abstract-pre-state transition matrix.",
        "level_note": "Trusted: the BTreeMap model; the verif hook only reads the three internal maps. Bounded-exhaustive part is exhaustive only for the stated alphabet and length.",
        "technique": "runtime monitoring against an executable sequential model (bounded-exhaustive + random histories) with an in-crate invariant hook",
    },
    "C05": {
        "level_text": "Differential runtime monitor: every generated valid entry list is serialised by the library and compared byte-for-byte with an independent spec encoder, parsed back, and the independent encoder's output (compressed by the upstream codecs with foreign parameters) is parsed by the library; bounded-exhaustive over boundary-valued lists of <=3 entries, random up to 10^5 entries, 4 codecs, sync+async. Holds on the lists executed, which include every branch of the offset rule at index 0 and >0.",
        "level_note": "Trusted: harness/src/refimpl.rs (varint + directory codec written from the spec), flate2/brotli/zstd as upstream decoders, the harness PRNG. Lists beyond the generated sizes/values are not covered.",
        "technique": "differential runtime monitoring against an independent spec encoder/decoder (bounded-exhaustive + random inputs)",
    },
    "C06": {
        "level_text": "Output-structure monitor on util::write_directories(_async) over a recording stream: lists size-steered so that the None encoding lands exactly at 16256/16257/16258/.../16385 bytes, codec lists bracketed around the first spilling prefix, random lists up to 10^5 entries, initial leaf sizes {default,1,2,7,33,4096,10^6}; root = stream[start, position) must be <=16257 bytes and decode (exact consumption) as one directory; on spill only pointers whose [offset,offset+length) decodes as exactly one leaf starting with the pointer's id, concatenation = input; no spill => root = input; spill <=> the single-directory encoding exceeds 16257 bytes. Whole-archive form of the clauses is monitored by C02.",
        "level_note": "Trusted: refimpl decoder and the codecs' consumed-byte accounting (flate2 bufread, zstd single-frame, brotli stream API). Leaf sections are not required to be gap-free (observed, not demanded).",
        "technique": "runtime monitoring of the writer's output structure with an independent decoder (size-steered boundary inputs)",
    },
    "C07": {
        "level_text": "Differential runtime monitor: the library's tile_id/zxy are compared in both directions with the specification's rotate/flip Hilbert algorithm for every id of zooms 0..13 (quick) / 0..16 (thorough) plus boundary and random points at every zoom and u64 ids beyond zoom 31; structural clauses (adjacency, zoom blocks, children blocks) are asserted on the library's own outputs; coordinate lookups outside the grid (z up to 255) run against archives holding the aliased tile and must answer None/Err without panicking (overflow checks on).",
        "level_note": "Trusted: the reference Hilbert implementation (self-tested against the spec's published vectors). Zooms above the exhaustive bound are sampled, not enumerated.",
        "technique": "differential runtime monitoring against the spec's Hilbert algorithm, exhaustive to a zoom bound, + panic/overflow observer on lookups",
    },
    "C08": {
        "level_text": "Crash observer under hostile inputs: a crafted corpus (>=1 archive per hazard class x 4 codecs: huge entry counts, overflowing id/offset sums, zero first offset, offsets near 2^64, self/2-cycle/wide-cycle pointers, chains up to 10^5 links, oversized lengths, bad metadata, wrong/garbage codec streams), every prefix and single-byte boundary substitution of small valid archives, and 2*10^5 (quick) / 1.2*10^7 (thorough) structure-aware mutations are fed to the header/directory/archive readers (sync+async), then lookups, partial opens, read_directories and a re-write run on whatever opened. Observed: panics (overflow checks on in the crate under test), worker death (stack overflow, allocation failure under a 12 GiB limit; attributed to the exact case via a progress file) and logical stream-operation budgets. Thorough adds a stock-release pass, an ASan pass (zstd C code instrumented) and a Miri pass on the codec-free subset.",
        "level_note": "Trusted: the lenient expansion estimator that puts inputs expanding past 2*10^6 tiles / 10^5 directory visits outside the claim. A loop that performs no I/O at all is only caught by the (inconclusive) watchdog. Clean sanitizer runs cover only the reached code.",
        "technique": "runtime monitoring with a panic/abort/overflow observer under crafted, exhaustive-small and structure-aware mutated inputs; ASan + Miri layers in thorough",
    },
    "C09": {
        "level_text": "Differential runtime monitor: headers are packed by an independent 127-byte packer, parsed by the library and re-serialised; bytes must be reproduced for every stored coordinate value visited (all 2^32 in the thorough tier, every 37th in quick), parsed fields must equal the packed ones, degrees must be stored as the nearest multiple of 1e-7, the reader must consume exactly 127 bytes under short reads / Pending, and every malformed class (magic, version, enum codes, truncations) must be rejected with an error.",
        "level_note": "Trusted: refimpl header_pack/header_unpack. The u64 fields are sampled at boundary/random values, not enumerated.",
        "technique": "differential runtime monitoring against an independent header codec (exhaustive over stored coordinate values in thorough)",
    },
    "C10": {
        "level_text": "Output-structure + invariant-hook monitor: logical archives with hard duplication patterns (runs, alternation, cross-zoom duplicates, one content over a long block, near duplicates) are built along four histories (in memory, half/reopen/half so that duplicates straddle reader-backed and in-memory tiles, reopen then re-add identical bytes, detours through junk) and written; the file parsed by the reference reader must have tile-data length = sum of distinct contents, identical content <=> identical offset, no mergeable neighbouring entries, entry count = number of maximal runs, correct content counter; while building, the in-crate store report must show exactly one retained copy per live content and none unreferenced.",
        "level_note": "Trusted: refimpl reader, the model of live contents, the read-only verif hook. Assumes no 64-bit content-hash collision among generated contents.",
        "technique": "runtime monitoring of written structure (independent reader) plus an in-crate store invariant hook at quiescent points",
    },
    "C11": {
        "level_text": "Differential runtime monitor: for library-written and foreign archives (depth 1-3, 4 codecs) the range-filtered open through all four entry points is compared with the full open of the same bytes filtered by RangeBounds::contains, for ~110/260 ranges per archive covering all 3x3 bound kinds with endpoints steered onto 0, leaf first ids, run boundaries, the last id and u64::MAX, the literal forms ..0 ..=0 0..0, inverted and empty ranges; overflow checks on. Evidence shows how often leaf bytes were actually skipped.",
        "level_note": "Trusted: the library's own full open as oracle (its correctness is C01/C03's subject).",
        "technique": "differential runtime monitoring: partial open vs full open restricted to the range (steered + random ranges)",
    },
    "C12": {
        "level_text": "Differential runtime monitor sync vs async: the async readers/writers (feature async, never compiled by the repo's tests) are driven by block_on over plain cursors and over an instrumented stream with short transfers and random Pending, on logical archives (all four writer x reader combinations, None outputs byte-compared, async output judged by the independent reader), foreign and library-written archives (full and range-filtered opens incl. tile bytes, read_directories twins), entry lists x 4 codecs (Directory and write_directories twins) and headers. Thorough repeats the quick-sized workload under ASan.",
        "level_note": "Trusted: the synchronous twin as oracle; futures::executor::block_on as executor.",
        "technique": "differential runtime monitoring of async twins against sync twins under Pending and short transfers",
    },
    "C13": {
        "level_text": "Schedule-imposing monitor: stream wrappers impose transfer-size schedules (>=1 byte) and Pending patterns on one task; EVERY composition of n<=16 (quick) / 22 (thorough) bytes for None-encoded directories on read and write, every fixed chunk size / two-part split / random compositions for codec directories and headers, fixed chunks {1,2,3,7,64,4096} and random schedules on whole archives incl. leaf-spilling ones in 4 codecs, sync and async, and every Pending pattern over the first 12 polls; results must equal the unfragmented twin (values for readers, bytes for writers). Thorough repeats the quick-sized workload under ASan (async codec adapters, zstd C code).",
        "level_note": "Trusted: the instrumented streams (self-tested against std Cursor). Seeks are not fragmented and Interrupted is not injected (the property's schedule space).",
        "technique": "runtime monitoring under imposed fragmentation/Pending schedules (exhaustive for small inputs) against the unfragmented twin",
    },
    "C14": {
        "level_text": "Inverse + interoperability monitor: payloads (empty, 1 byte, runs, text, incompressible, block-boundary sizes, multi-megabyte) x 4 codecs x {one-shot helpers; upstream-encoded foreign streams; streaming adapters sync+async under caller chunk schedules over fragmenting/Pending streams; every composition of write chunks for |x|<=12; back-to-back one-shot calls on x, a same-length sibling differing in one byte, and x again}; outputs must decode with the upstream codec libraries consuming exactly the whole stream, a sample of gzip outputs with Python's gzip, and 'unknown' must be refused by all eight entry points. Thorough adds an ASan pass with the zstd C code instrumented.",
        "level_note": "Trusted: flate2/brotli/zstd upstream decoders and Python zlib as judges of 'standard stream'.",
        "technique": "runtime monitoring of compress/decompress inverses against upstream and unrelated decoders under chunking schedules; ASan layer in thorough",
    },
    "C15": {
        "level_text": "Fail-stop fault enumeration: for each of ~116 scenarios (PMTiles to_writer/from_reader/get_tile_by_id, read_directories/write_directories, Directory and Header readers/writers; small and leaf-spilling; 4 codecs; sync and async) the fault-free run defines N stream operations and the run in which operation k and all later ones fail is executed for every k<N (a stride is reported for the few scenarios with N above the tier limit); the call must not panic and Ok implies the stream image / returned value equals the fault-free one.",
        "level_note": "Trusted: the fail-stop stream wrapper. Fault model: operation k and all later ones fail without side effect; transient faults and torn individual writes are not modelled.",
        "technique": "fault injection at every stream-operation index (fail-stop) with a fault-free twin as oracle",
    },
    "C16": {
        "level_text": "Pairwise byte-comparison monitor: each logical archive is built along twelve histories reaching the same logical state (insertion orders, metadata key orders, detours, save+reopen midway with sync/async reopen, sync and async writer) and all outputs of a writer kind must be byte-identical; outputs are reopened and re-written (rewrite idempotence incl. stored coordinates); a cross-process phase has 6 separate OS processes (different hash-map seeds) serialise the same archives and compares fingerprints.",
        "level_note": "Trusted: byte equality only (no golden files). Six processes sample the space of hash seeds; they do not enumerate it.",
        "technique": "runtime monitoring by pairwise byte comparison across edit histories and OS processes",
    },
    "C17": {
        "level_text": "Crash-point enumeration over recorded operation logs: the writer's stream operations into a fresh stream are recorded with data; for EVERY k in [0,N] the first k operations are replayed into a fresh image which is handed to the library's own reader; any image that opens must be byte-identical to the complete archive. Archives with and without leaf spill, 4 codecs, sync and async.",
        "level_note": "Trusted: the op-replay (self-tested to reproduce the image). Each write call is atomic, as the property's quantifier states.",
        "technique": "offline checker over recorded stream-operation logs, replayed at every crash point into the library's reader",
    },
    "C18": {
        "level_text": "Stream-image monitor: the writers (sync and async with Pending) start at position P in {0,1,10,127,128,4096,random<2^20, around 2^32 on a stream with a hole, and every section offset/length/end of the archive's own header +-{0,1,127}} of streams pre-filled with sentinels (empty, shorter than P, exactly P, longer than the archive); sentinel bytes before P must be intact, stream[P..final position] must validate with the independent reader and address exactly the logical content with offsets relative to P, and the final position must be P + archive end.",
        "level_note": "Trusted: refimpl validator; in-memory stream with Cursor semantics (zero fill past the end).",
        "technique": "runtime monitoring of the stream image after writing at a non-zero start position, judged by the independent reader",
    },
    "C19": {
        "level_text": "Rejection observer with before/after state: a zero-length entry at every index (sampled for large directories) x 4 codecs x serialiser/parser x sync/async; add_tile(id, []) on existing and absent ids after every operation of random edit histories with full observable-state, store-report and saved-bytes comparison against an untouched twin; every non-object JSON kind as metadata x 4 codecs x sync/async open; Unknown internal compression on write, open and at directory level. Each clause has a positive control.",
        "level_note": "Trusted: the independent writer used to craft the offending archives; the C04 model for the 'unchanged' clause.",
        "technique": "runtime monitoring of documented refusals with before/after state comparison",
    },
    "C20": {
        "level_text": "Read-range monitor over recorded operation logs: opens (full and range-filtered, sync and async with Pending) and per-tile lookups run over a recording stream on library-written and foreign archives (permuted sections, sentinel gaps, tile data before directories, depth 1-3, 4 codecs); interval arithmetic over the bytes actually returned by reads must stay inside header + metadata + root + leaf sections for an open (never tile data or a gap) and inside exactly the tile's byte range for a lookup; an absent id must read nothing.",
        "level_note": "Trusted: the recording stream and the independently parsed header's section table. Re-reading and reading the whole leaf section are allowed (the statement permits both).",
        "technique": "offline interval checker over recorded read operations against independently parsed section bounds",
    },
}
