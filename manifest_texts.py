"""Human-written texts for MANIFEST.json (level text, trusted base, technique) per claimed property."""

HOOK_COMMITS = ["c35610e"]

_PENDING = "check under construction in this session; will be claimed once its monitor is built and silent on the unchanged tree"
NOT_APPLICABLE = [{"property_id": f"C{i:02d}", "reason": _PENDING} for i in range(1, 21)]

TEXTS = {
    "C05": {
        "level_text": "Differential runtime monitor: every generated valid entry list is serialised by the library and compared byte-for-byte with an independent spec encoder, parsed back, and the independent encoder's output (compressed by the upstream codecs with foreign parameters) is parsed by the library; bounded-exhaustive over boundary-valued lists of <=3 entries, random up to 10^5 entries, 4 codecs, sync+async. Exploration: holds on the lists executed, which include every branch of the offset rule at index 0 and >0.",
        "level_note": "Trusted: harness/src/refimpl.rs (varint + directory codec written from the spec), flate2/brotli/zstd as upstream decoders, the harness PRNG. Lists beyond the generated sizes/values are not covered.",
        "technique": "differential runtime monitoring against an independent spec encoder/decoder (bounded-exhaustive + random inputs)",
    },
    "C07": {
        "level_text": "Differential runtime monitor: the library's tile_id/zxy are compared in both directions with the specification's rotate/flip Hilbert algorithm for every id of zooms 0..10 (quick) / 0..15 (thorough) plus boundary and random points at every zoom and u64 ids beyond zoom 31; structural clauses (adjacency, zoom blocks, children blocks) are asserted on the library's own outputs; coordinate lookups outside the grid (z up to 255) run against archives holding the aliased tile and must answer None/Err without panicking (overflow checks on).",
        "level_note": "Trusted: the reference Hilbert implementation (self-tested against the spec's published vectors). Zooms above the exhaustive bound are sampled, not enumerated.",
        "technique": "differential runtime monitoring against the spec's Hilbert algorithm, exhaustive to a zoom bound, + panic/overflow observer on lookups",
    },
    "C09": {
        "level_text": "Differential runtime monitor: headers are packed by an independent 127-byte packer, parsed by the library and re-serialised; bytes must be reproduced for every stored coordinate value visited (all 2^32 in the thorough tier, every 4099th in quick), parsed fields must equal the packed ones, degrees must be stored as the nearest multiple of 1e-7, the reader must consume exactly 127 bytes under short reads / Pending, and every malformed class (magic, version, enum codes, truncations) must be rejected with an error.",
        "level_note": "Trusted: refimpl header_pack/header_unpack. The u64 fields are sampled at boundary/random values, not enumerated.",
        "technique": "differential runtime monitoring against an independent header codec (exhaustive over stored coordinate values in thorough)",
    },
}
