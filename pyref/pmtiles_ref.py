"""Second, unrelated reader for PMTiles v3 (Python stdlib only; none + gzip internal compression).

Re-implements header parsing, directory decoding, the directory walk, the specification's lookup
procedure and the well-formedness clauses of property C02. Used to cross-check a sample of the files
the Rust harness validates with its own reference reader, and (C14) to decode gzip output with zlib.
"""
import gzip
import io
import json
import struct
import zlib


class Invalid(Exception):
    pass


def read_varint(buf, pos):
    result = 0
    shift = 0
    while True:
        if pos >= len(buf):
            raise Invalid("varint: unexpected end")
        b = buf[pos]
        pos += 1
        result |= (b & 0x7F) << shift
        if not b & 0x80:
            if result >= 1 << 64:
                raise Invalid("varint overflows 64 bit")
            return result, pos
        shift += 7
        if shift > 63:
            raise Invalid("varint too long")


def decompress(codec, data):
    if codec == 1:
        return bytes(data)
    if codec == 2:
        d = zlib.decompressobj(wbits=31)
        out = d.decompress(bytes(data))
        if not d.eof:
            raise Invalid("gzip stream truncated")
        if d.unused_data:
            raise Invalid("gzip stream followed by %d unused bytes" % len(d.unused_data))
        return out
    raise Invalid("codec %d not supported by the Python reader" % codec)


def parse_header(b):
    if len(b) < 127:
        raise Invalid("short header")
    if b[:7] != b"PMTiles":
        raise Invalid("wrong magic")
    if b[7] != 3:
        raise Invalid("version %d" % b[7])
    f = struct.unpack_from("<11Q", b, 8)
    h = dict(zip(["root_offset", "root_length", "meta_offset", "meta_length", "leaf_offset", "leaf_length",
                  "data_offset", "data_length", "n_addressed", "n_entries", "n_contents"], f))
    h["clustered"], h["internal_compression"], h["tile_compression"], h["tile_type"], h["min_zoom"], h["max_zoom"] = b[96:102]
    (h["min_lon"], h["min_lat"], h["max_lon"], h["max_lat"]) = struct.unpack_from("<4i", b, 102)
    h["center_zoom"] = b[118]
    (h["center_lon"], h["center_lat"]) = struct.unpack_from("<2i", b, 119)
    return h


def decode_dir(plain):
    n, pos = read_varint(plain, 0)
    if n > len(plain):
        raise Invalid("entry count exceeds directory size")
    ids, runs, lens, offs = [], [], [], []
    last = 0
    for _ in range(n):
        d, pos = read_varint(plain, pos)
        last += d
        ids.append(last)
    for _ in range(n):
        v, pos = read_varint(plain, pos)
        runs.append(v)
    for _ in range(n):
        v, pos = read_varint(plain, pos)
        if v == 0:
            raise Invalid("entry length 0")
        lens.append(v)
    for i in range(n):
        v, pos = read_varint(plain, pos)
        if v == 0 and i > 0:
            offs.append(offs[i - 1] + lens[i - 1])
        elif v == 0:
            raise Invalid("first offset 0")
        else:
            offs.append(v - 1)
    if pos != len(plain):
        raise Invalid("directory has %d trailing bytes" % (len(plain) - pos))
    return list(zip(ids, offs, lens, runs))


def read_dir(data, h, off, length):
    if off + length > len(data):
        raise Invalid("directory outside file")
    return decode_dir(decompress(h["internal_compression"], data[off:off + length]))


def walk(data, h):
    """Returns the flattened tile entries (id, off, len, run) in directory order."""
    out = []

    def rec(off, length, depth):
        if depth > 4:
            raise Invalid("directories nested too deeply")
        for (tid, o, ln, run) in read_dir(data, h, off, length):
            if run == 0:
                if o + ln > h["leaf_length"]:
                    raise Invalid("leaf pointer outside leaf section")
                leaf = read_dir(data, h, h["leaf_offset"] + o, ln)
                if not leaf or leaf[0][0] != tid:
                    raise Invalid("leaf pointer id %d does not match its leaf's first id" % tid)
                rec(h["leaf_offset"] + o, ln, depth + 1)
            else:
                out.append((tid, o, ln, run))
    rec(h["root_offset"], h["root_length"], 0)
    return out


def find_tile(entries, tid):
    m, n = 0, len(entries) - 1
    while m <= n:
        k = (m + n) >> 1
        c = tid - entries[k][0]
        if c > 0:
            m = k + 1
        elif c < 0:
            n = k - 1
        else:
            return entries[k]
    if n >= 0:
        e = entries[n]
        if e[3] == 0 or tid - e[0] < e[3]:
            return e
    return None


def lookup(data, h, tid):
    off, length = h["root_offset"], h["root_length"]
    for _ in range(4):
        e = find_tile(read_dir(data, h, off, length), tid)
        if e is None:
            return None
        if e[3] > 0:
            a = h["data_offset"] + e[1]
            return bytes(data[a:a + e[2]])
        off, length = h["leaf_offset"] + e[1], e[2]
    raise Invalid("lookup exceeded directory depth")


def validate(data):
    """The C02 clauses; returns (header, flattened entries, metadata)."""
    h = parse_header(data)
    if h["internal_compression"] not in (1, 2):
        raise Invalid("unsupported internal compression for the Python reader")
    if h["clustered"] > 1 or h["tile_compression"] > 4 or h["tile_type"] > 5:
        raise Invalid("unknown enum code")
    secs = [("header", 0, 127)]
    for name in ("root", "meta", "leaf", "data"):
        off, ln = h[name + "_offset"], h[name + "_length"]
        if off + ln > len(data):
            raise Invalid("%s section outside file" % name)
        if ln:
            secs.append((name, off, off + ln))
    for i in range(len(secs)):
        for j in range(i + 1, len(secs)):
            a, b = secs[i], secs[j]
            if a[1] < b[2] and b[1] < a[2]:
                raise Invalid("sections %s and %s overlap" % (a[0], b[0]))
    if h["root_offset"] + h["root_length"] > 16384:
        raise Invalid("root directory not within the first 16 KiB")
    entries = walk(data, h)
    nxt = None
    for (tid, off, ln, run) in entries:
        if nxt is not None and tid < nxt:
            raise Invalid("entries not strictly ascending at %d" % tid)
        nxt = tid + run
        if off + ln > h["data_length"]:
            raise Invalid("tile range outside tile data")
    meta = json.loads(decompress(h["internal_compression"], data[h["meta_offset"]:h["meta_offset"] + h["meta_length"]]).decode("utf-8"))
    if not isinstance(meta, dict):
        raise Invalid("metadata is not a JSON object")
    if h["n_addressed"] != sum(e[3] for e in entries):
        raise Invalid("addressed tiles counter")
    if h["n_entries"] != len(entries):
        raise Invalid("tile entries counter")
    if h["n_contents"] != len({e[1] for e in entries}):
        raise Invalid("tile contents counter")
    if h["clustered"] == 1:
        seen, max_end = set(), 0
        for (tid, off, ln, run) in entries:
            if (off, ln) in seen:
                continue
            if off < max_end:
                raise Invalid("clustered flag set but tile data is not in tile-id order")
            seen.add((off, ln))
            max_end = off + ln
    return h, entries, meta


def fnv_mix(data):
    """Same 64-bit fingerprint as the Rust harness' rng::hash_bytes."""
    mask = (1 << 64) - 1
    hsh = 0xCBF29CE484222325
    for b in data:
        hsh ^= b
        hsh = (hsh * 0x100000001B3) & mask
    x = (hsh + 0x9E3779B97F4A7C15) & mask
    z = x
    z = ((z ^ (z >> 30)) * 0xBF58476D1CE4E5B9) & mask
    z = ((z ^ (z >> 27)) * 0x94D049BB133111EB) & mask
    return z ^ (z >> 31)


def gunzip_unrelated(data):
    """gzip member decoding with Python's zlib/gzip module (an implementation unrelated to flate2)."""
    return gzip.GzipFile(fileobj=io.BytesIO(data)).read()
