#!/usr/bin/env python3
"""Driver of the runtime-monitoring checks for pmtiles-rs (properties C01..C20).

usage:
  python3 run.py setup                       build the harness from /repo's working tree, self-test
  python3 run.py check <ID> [quick|thorough] run one property check (VERIF_SEED, VERIF_TIER honoured)
  python3 run.py replay <replay.json>        re-execute the case of a replay file on the current tree

Exit codes: 0 held on everything explored (KNOWN-FINDING lines possible), 1 violation
(`VIOLATION property=<id> replay=<path>`), 2 inconclusive (never a VIOLATION line).
Python stdlib only.
"""
import array
import hashlib
import json
import os
import resource
import shutil
import signal
import subprocess
import sys
import time

VERIF = os.path.dirname(os.path.abspath(__file__))
HARNESS = os.path.join(VERIF, "harness")
EVIDENCE = os.path.join(VERIF, "evidence")
REPLAYS = os.path.join(VERIF, "replays")
KNOWN = os.path.join(VERIF, "known_findings.json")
sys.path.insert(0, VERIF)
from checks_config import CHECKS  # noqa: E402

NCPU = os.cpu_count() or 4


def log(*a):
    print(*a, file=sys.stderr, flush=True)


def base_env():
    env = dict(os.environ)
    env["CARGO_NET_OFFLINE"] = "true"
    env.setdefault("CARGO_TERM_COLOR", "never")
    env.pop("RUSTFLAGS", None)
    return env


PROFILES = {
    # name: (cargo args, env overrides, path of binary relative to HARNESS)
    "checked": (["cargo", "build", "--release", "--offline"], {}, "target/release/pmverif"),
    "plain": (["cargo", "build", "--profile", "plain", "--offline"], {}, "target/plain/pmverif"),
    "asan": (
        ["cargo", "+nightly", "build", "--release", "--offline", "--target", "x86_64-unknown-linux-gnu",
         "--target-dir", "target-asan"],
        {"RUSTFLAGS": "-Zsanitizer=address -Cforce-frame-pointers=yes", "CC": "clang-14", "CFLAGS": "-fsanitize=address"},
        "target-asan/x86_64-unknown-linux-gnu/release/pmverif",
    ),
    # Miri: the "build" is a no-op run that compiles everything; workers go through `cargo miri run`
    "miri": (
        ["cargo", "+nightly", "miri", "run", "--offline", "--target-dir", "target-miri", "--", "noop"],
        {"MIRIFLAGS": "-Zmiri-disable-isolation -Zmiri-permissive-provenance"},
        None,
    ),
}
MIRI_RUNNER = ["cargo", "+nightly", "miri", "run", "--offline", "--target-dir", "target-miri", "--"]


def build(profile):
    """(Re)build the harness + pmtiles2 from /repo's current working tree. Returns (ok, binary, log)."""
    args, envo, rel = PROFILES[profile]
    env = base_env()
    env.update(envo)
    t0 = time.time()
    p = subprocess.run(args, cwd=HARNESS, env=env, stdout=subprocess.PIPE, stderr=subprocess.STDOUT, text=True)
    log(f"[build:{profile}] exit={p.returncode} {time.time() - t0:.1f}s")
    return p.returncode == 0, (os.path.join(HARNESS, rel) if rel else None), p.stdout


def limits(mem_gib, stack_mib=8):
    def f():
        os.setsid()
        if mem_gib:
            b = int(mem_gib * (1 << 30))
            resource.setrlimit(resource.RLIMIT_AS, (b, b))
        s = stack_mib << 20
        try:
            resource.setrlimit(resource.RLIMIT_STACK, (s, s))
        except (ValueError, OSError):
            pass
        resource.setrlimit(resource.RLIMIT_CORE, (0, 0))
    return f


class Worker:
    def __init__(self, binary, check, tier, seed, shard, nshards, work, phase, resume_after=None, only=None):
        self.shard = shard
        self.phase = phase
        self.out = os.path.join(work, f"{phase['name']}_{shard}_{0 if resume_after is None else resume_after + 1}.json")
        self.progress = os.path.join(work, f"{phase['name']}_{shard}.progress")
        self.stderr_path = self.out + ".stderr"
        launcher = [binary] if binary else list(MIRI_RUNNER)
        cmd = list(phase.get("wrapper", [])) + launcher + [check, "--tier", tier, "--seed", str(seed), "--shard", str(shard),
                                               "--nshards", str(nshards), "--out", self.out, "--progress", self.progress,
                                               "--profile", phase["profile"]]
        if phase.get("sub"):
            cmd += ["--sub", phase["sub"]]
        if resume_after is not None:
            cmd += ["--resume-after", str(resume_after)]
        if only is not None:
            cmd += ["--only", str(only)]
        if os.path.exists(self.progress):
            os.remove(self.progress)
        env = base_env()
        env["RUST_BACKTRACE"] = "0"
        env.update(PROFILES.get(phase["profile"], (None, {}, None))[1] if phase["profile"] == "miri" else {})
        env.update(phase.get("env", {}))
        self.cmd = cmd
        self.t0 = time.time()
        self.stderr_f = open(self.stderr_path, "wb")
        self.p = subprocess.Popen(cmd, cwd=HARNESS, env=env, stdout=subprocess.DEVNULL, stderr=self.stderr_f,
                                  preexec_fn=limits(phase.get("mem_gib", 12)))

    def read_progress(self):
        try:
            b = open(self.progress, "rb").read(16)
            if len(b) == 16:
                return int.from_bytes(b[:8], "little"), int.from_bytes(b[8:], "little")
        except OSError:
            pass
        return None, None

    def stderr_tail(self, n=600):
        try:
            if not self.stderr_f.closed:
                self.stderr_f.flush()
            d = open(self.stderr_path, "rb").read()
            if len(d) > 2 * n:
                d = d[:n] + b"\n[...]\n" + d[-n:]
            return d.decode("utf-8", "replace")
        except OSError:
            return ""


def run_phase(cfg, check, tier, seed, work, phase, agg, only=None):
    ok, binary, blog = build(phase["profile"])
    if not ok:
        errs = [l for l in blog.splitlines() if l.startswith("error")]
        agg["inconclusive"].append(f"build of profile {phase['profile']} failed: " + " | ".join(errs[:6])[:800])
        agg["build_failed"] = True
        return
    nshards = 1 if only is not None else phase.get("nshards", NCPU)
    timeout = phase.get("timeout_s", 3600)
    pending = [Worker(binary, check, tier, seed, s, nshards, work, phase, only=only) for s in range(nshards)]
    restarts = {}
    while pending:
        time.sleep(0.05)
        still = []
        for w in pending:
            rc = w.p.poll()
            if rc is None:
                if time.time() - w.t0 > timeout:
                    try:
                        os.killpg(w.p.pid, signal.SIGKILL)
                    except OSError:
                        pass
                    w.p.wait()
                    case, _ = w.read_progress()
                    agg["inconclusive"].append(
                        f"watchdog: worker {w.shard} of phase {phase['name']} exceeded {timeout}s (case {case}); wall-clock is never a verdict")
                    collect(w, agg, partial=True)
                    continue
                still.append(w)
                continue
            w.stderr_f.close()
            if rc == 0 and os.path.exists(w.out):
                collect(w, agg)
                continue
            # abnormal termination
            case, state = w.read_progress()
            collect(w, agg, partial=True)
            tail = w.stderr_tail()
            sig = -rc if rc < 0 else None
            asan = "AddressSanitizer" in tail or "LeakSanitizer" in tail or "Undefined Behavior" in tail
            if "unsupported operation" in tail and not asan:
                agg["inconclusive"].append(f"worker {w.shard}: Miri cannot execute this case ({case}): " + tail[-300:])
                continue
            if rc == 3 or (sig is None and not asan and rc not in (101, 134, 139)) or (rc == 1 and not asan):
                agg["inconclusive"].append(f"worker {w.shard} exited with status {rc}: {tail[-300:]}")
                continue
            if sig == signal.SIGKILL:
                agg["inconclusive"].append(f"worker {w.shard} was killed (SIGKILL, out of memory?) in case {case}")
                continue
            if sig in (signal.SIGTERM, signal.SIGINT, signal.SIGHUP, signal.SIGQUIT):
                # sent from outside (operator, session teardown); the code under test cannot raise these
                agg["inconclusive"].append(f"worker {w.shard} was terminated from outside ({signal.Signals(sig).name}) in case {case}")
                continue
            if case is None or state != 1:
                agg["inconclusive"].append(f"worker {w.shard} died (status {rc}) outside any case: {tail[-300:]}")
                continue
            # death inside a case: the library call did not return -> refutation
            kind = "sanitizer-report" if asan else "abort"
            why = classify_death(tail, sig, rc)
            signature = f"{cfg['id']}|process|{kind}|{why}"
            v = agg["violations"].setdefault(signature, {
                "signature": signature,
                "what": f"worker process died inside case {case} ({why}); stderr tail: {tail[-400:]}",
                "count": 0,
                "replay": {"property": cfg["id"], "tier": tier, "seed": seed, "case": case, "profile": phase["profile"],
                           "sub": phase.get("sub", ""), "api": "process", "class": kind, "what": why,
                           "materialised": {"stderr_tail": tail[-1500:]}},
            })
            v["count"] += 1
            agg["counters"]["worker_deaths"] = agg["counters"].get("worker_deaths", 0) + 1
            if only is not None:
                continue
            n = restarts.get(w.shard, 0)
            if n >= phase.get("max_restarts", 25):
                agg["inconclusive"].append(f"worker {w.shard}: more than {n} deaths, remaining cases not executed")
                continue
            restarts[w.shard] = n + 1
            still.append(Worker(binary, check, tier, seed, w.shard, nshards, work, phase, resume_after=case))
        pending = still


def classify_death(tail, sig, rc):
    t = tail.lower()
    if "overflowed its stack" in t or "stack overflow" in t:
        return "stack overflow"
    if "memory allocation of" in t:
        return "memory allocation failure (absurd allocation)"
    if "addresssanitizer" in t:
        for line in tail.splitlines():
            if "ERROR: AddressSanitizer" in line:
                return "asan: " + " ".join(line.split()[2:5])
        return "asan report"
    if "leaksanitizer" in t:
        return "lsan: memory leak"
    if "undefined behavior" in t:
        for line in tail.splitlines():
            if "Undefined Behavior" in line:
                return "miri: " + line.strip()[:120]
        return "miri: undefined behavior"
    if sig is not None:
        try:
            return "signal " + signal.Signals(sig).name
        except ValueError:
            return f"signal {sig}"
    return f"exit status {rc}"


def collect(w, agg, partial=False):
    path = w.out if os.path.exists(w.out) else w.out + ".partial"
    if partial and os.path.exists(w.out + ".partial") and not os.path.exists(w.out):
        path = w.out + ".partial"
    if not os.path.exists(path):
        return
    try:
        d = json.load(open(path))
    except (OSError, ValueError) as e:
        agg["inconclusive"].append(f"unreadable worker output {path}: {e}")
        return
    complete = d.get("complete", False)
    if complete:
        agg["evaluations"] += d.get("evaluations", 0)
        agg["enumerated"] += d.get("enumerated_distinct", 0)
        for k, v in d.get("counters", {}).items():
            if k.startswith("max."):
                agg["counters"][k] = max(agg["counters"].get(k, 0), v)
            else:
                agg["counters"][k] = agg["counters"].get(k, 0) + v
        for s in d.get("samples", []):
            if len(agg["samples"]) < 6:
                agg["samples"].append(s)
        for k, v in d.get("extra", {}).items():
            agg["extra"].setdefault(k, v)
        fp = path + ".fp" if path.endswith(".json") else None
        if fp and os.path.exists(fp):
            a = array.array("Q")
            with open(fp, "rb") as f:
                a.frombytes(f.read())
            agg["fps"].update(a)
        agg["workers_completed"] += 1
    for v in d.get("violations", []):
        cur = agg["violations"].get(v["signature"])
        if cur is None:
            agg["violations"][v["signature"]] = dict(v)
        elif complete:
            cur["count"] += v.get("count", 1)
    for r in d.get("inconclusive", []):
        if r not in agg["inconclusive"]:
            agg["inconclusive"].append(r)


def load_known():
    try:
        return json.load(open(KNOWN)).get("findings", [])
    except (OSError, ValueError):
        return []


def new_agg():
    return {"evaluations": 0, "enumerated": 0, "counters": {}, "samples": [], "extra": {}, "fps": set(),
            "violations": {}, "inconclusive": [], "workers_completed": 0, "phases": []}


def do_check(check_id, tier, seed):
    cfg = CHECKS[check_id]
    check = check_id.lower()
    t0 = time.time()
    work = os.path.join(VERIF, ".work", f"{check}-{tier}-{os.getpid()}")
    shutil.rmtree(work, ignore_errors=True)
    os.makedirs(work)
    agg = new_agg()
    try:
        only_phases = [x for x in os.environ.get("VERIF_ONLY_PHASES", "").split(",") if x]
        if only_phases:
            # debugging aid (seeded-change runs): a partial run can refute, but it can never come out as `held`
            agg["inconclusive"].append("partial run: only the phases " + ",".join(only_phases) + " were executed (VERIF_ONLY_PHASES)")
        for phase in cfg["phases"](tier):
            if only_phases and phase["name"] not in only_phases:
                continue
            p0 = time.time()
            e0 = agg["evaluations"]
            if phase.get("kind") == "python":
                phase["fn"](cfg, tier, seed, work, agg)
            else:
                run_phase(cfg, check, tier, seed, work, phase, agg)
            agg["phases"].append({"name": phase["name"], "profile": phase.get("profile", "python"),
                                  "evaluations": agg["evaluations"] - e0, "wall_s": round(time.time() - p0, 1)})
        return finish(cfg, tier, seed, agg, time.time() - t0)
    finally:
        shutil.rmtree(work, ignore_errors=True)
        try:
            os.rmdir(os.path.join(VERIF, ".work"))
        except OSError:
            pass


def finish(cfg, tier, seed, agg, wall):
    pid = cfg["id"]
    c = agg["counters"]
    # vacuity guards: an ineffective run is inconclusive, never "held"
    for key, minimum in cfg.get("require", {}).get(tier, cfg.get("require", {}).get("any", {})).items():
        if agg.get("build_failed"):
            break
        if c.get(key, 0) < minimum:
            agg["inconclusive"].append(f"vacuity guard: counter {key}={c.get(key, 0)} < {minimum}")
    distinct = len(agg["fps"]) + agg["enumerated"]
    if distinct < 2 and not agg["violations"]:
        agg["inconclusive"].append("fewer than 2 distinct non-trivial cases were executed")
    known = load_known()
    unlisted, listed = [], []
    for sig, v in sorted(agg["violations"].items()):
        m = [k for k in known if k.get("status") == "known" and k.get("property") == pid and k.get("signature") == sig]
        (listed if m else unlisted).append((sig, v, m[0] if m else None))
    os.makedirs(EVIDENCE, exist_ok=True)
    replay_paths = []
    if unlisted:
        d = os.path.join(REPLAYS, pid)
        os.makedirs(d, exist_ok=True)
        for sig, v, _ in unlisted:
            name = hashlib.sha1(sig.encode()).hexdigest()[:12] + ".json"
            path = os.path.join(d, name)
            rp = dict(v["replay"])
            rp["signature"] = sig
            rp["occurrences"] = v.get("count", 1)
            with open(path, "w") as f:
                json.dump(rp, f, indent=1)
            replay_paths.append((sig, v, path))
    verdict = "violated" if unlisted else ("inconclusive" if agg["inconclusive"] else "held")
    samples = agg["samples"] or [{"note": "no sample recorded"}]
    coverage = {
        "evaluations": max(agg["evaluations"], 0),
        "distinct_nontrivial": distinct,
        "rule": cfg["rule"],
        "samples": samples,
        "distinct_by_fingerprint": len(agg["fps"]),
        "distinct_by_enumeration": agg["enumerated"],
        "observations": dict(sorted(c.items())),
        "phases": agg["phases"],
        "workers_completed": agg["workers_completed"],
        "verdict": verdict,
        "inconclusive_reasons": agg["inconclusive"][:20],
        "violation_signatures": [{"signature": s, "count": v.get("count", 1), "what": v["what"][:300]} for s, v, _ in unlisted][:50],
        "known_findings_matched": [s for s, _, _ in listed],
    }
    coverage.update(agg["extra"])
    if cfg.get("exhaustive_key") and agg["extra"].get(cfg["exhaustive_key"]):
        coverage["exhaustive"] = True
    ev = {
        "property_id": pid,
        "tier": tier,
        "seed": seed,
        "level": cfg["level"],
        "coverage": coverage,
        "assumptions": cfg["assumptions"],
        "wall_s": round(wall, 1),
        "violations": len(unlisted),
    }
    with open(os.path.join(EVIDENCE, pid + ".json"), "w") as f:
        json.dump(ev, f, indent=1, sort_keys=False)
    print(f"[{pid}] tier={tier} seed={seed} verdict={verdict} evaluations={coverage['evaluations']} "
          f"distinct_nontrivial={distinct} wall={wall:.1f}s")
    interesting = {k: v for k, v in sorted(c.items()) if not k.startswith("violations.")}
    print(f"[{pid}] observed: " + json.dumps(interesting)[:1500])
    for sig, v, k in listed:
        print(f"KNOWN-FINDING: property={pid} {k.get('what', sig)}")
    if unlisted:
        for sig, v, path in replay_paths:
            print(f"[{pid}] {sig} (x{v.get('count', 1)}): {v['what'][:400]}")
        for sig, v, path in replay_paths:
            print(f"VIOLATION property={pid} replay={path}")
        return 1
    if agg["inconclusive"]:
        for r in agg["inconclusive"][:10]:
            print(f"INCONCLUSIVE property={pid} reason={r[:400]}")
        return 2
    return 0


def do_replay(path):
    rp = json.load(open(path))
    pid = rp["property"]
    cfg = CHECKS[pid]
    tier, seed, case = rp["tier"], rp["seed"], rp["case"]
    work = os.path.join(VERIF, ".work", f"replay-{os.getpid()}")
    shutil.rmtree(work, ignore_errors=True)
    os.makedirs(work)
    agg = new_agg()
    try:
        phase = None
        for ph in cfg["phases"](tier):
            if ph.get("kind") != "python" and ph["profile"] == rp.get("profile", "checked") and ph.get("sub", "") == rp.get("sub", ""):
                phase = ph
                break
        if phase is None:
            phase = {"name": "replay", "profile": rp.get("profile", "checked"), "sub": rp.get("sub", "")}
        run_phase(cfg, pid.lower(), tier, seed, work, phase, agg, only=case)
    finally:
        shutil.rmtree(work, ignore_errors=True)
    sigs = sorted(agg["violations"])
    print(f"[replay {pid}] case={case} seed={seed} tier={tier}: {len(sigs)} violation signature(s)")
    for s in sigs:
        print("  " + s + ": " + agg["violations"][s]["what"][:500])
    for r in agg["inconclusive"]:
        print("  inconclusive: " + r[:300])
    want = rp.get("signature")
    if want in agg["violations"]:
        print(f"VIOLATION property={pid} replay={path}")
        return 1
    if sigs:
        print(f"VIOLATION property={pid} replay={path}")
        return 1
    return 2 if agg["inconclusive"] else 0


def main():
    if len(sys.argv) < 2:
        print(__doc__)
        return 3
    cmd = sys.argv[1]
    if cmd == "setup":
        ok, binary, blog = build("checked")
        if not ok:
            print(blog[-3000:])
            return 1
        p = subprocess.run([binary, "selftest"], cwd=HARNESS)
        return p.returncode
    if cmd == "check":
        pid = sys.argv[2].upper()
        tier = sys.argv[3] if len(sys.argv) > 3 else os.environ.get("VERIF_TIER", "quick")
        if tier not in ("quick", "thorough"):
            tier = "quick"
        try:
            seed = int(os.environ.get("VERIF_SEED", "1"))
        except ValueError:
            seed = 1
        seed &= (1 << 63) - 1
        if pid not in CHECKS:
            print(f"unknown property {pid}")
            return 3
        return do_check(pid, tier, seed)
    if cmd == "replay":
        return do_replay(sys.argv[2])
    print(__doc__)
    return 3


if __name__ == "__main__":
    sys.exit(main())
