#!/usr/bin/env python3
"""Handling of seeded changes (/verif/seeded/<name>/{patch.diff,demo.rs,meta.json}).

  seedtool.py verify <dir>            confirm in a scratch worktree: builds (default + async), the 51 baseline tests pass
                                      with the patch, the demo fails with it and passes without it
  seedtool.py detect <dir> [Cxx ...]  apply the patch to /repo, run the quick check(s), undo; prints what fired
  seedtool.py all                     detect for every kept seeded change (property from meta.json), summary table

Nothing is ever committed to /repo; the patch is always reverted (git checkout -- . && git clean -fd src tests).
"""
import json
import os
import re
import subprocess
import sys
import time

VERIF = os.path.dirname(os.path.abspath(__file__))
REPO = "/repo"
WT = "/tmp/wt_seedverify"
ENV = dict(os.environ, CARGO_NET_OFFLINE="true", CARGO_TERM_COLOR="never")


def sh(cmd, cwd=None, timeout=7200, env=None):
    p = subprocess.run(cmd, cwd=cwd, env=env or ENV, stdout=subprocess.PIPE, stderr=subprocess.STDOUT, text=True, timeout=timeout)
    return p.returncode, p.stdout


def clean(wt):
    sh(["git", "checkout", "--", "."], cwd=wt)
    sh(["git", "clean", "-fdq", "src", "tests"], cwd=wt)


def verify(d):
    d = os.path.abspath(d)
    if not os.path.isdir(WT):
        rc, out = sh(["git", "-C", REPO, "worktree", "add", "-q", "--detach", WT, "HEAD"])
        if rc:
            print(out)
            return 2
    else:
        head = sh(["git", "-C", REPO, "rev-parse", "HEAD"])[1].strip()
        sh(["git", "checkout", "-q", "--detach", head], cwd=WT)
    clean(WT)
    meta = json.load(open(os.path.join(d, "meta.json")))
    feats = ["--features", "async"] if "async" in json.dumps(meta.get("demo_cmd", "")) else []
    res = {}
    rc, out = sh(["git", "apply", "--check", os.path.join(d, "patch.diff")], cwd=WT)
    res["applies"] = rc == 0
    if rc:
        print(out)
        print(json.dumps(res))
        return 1
    os.makedirs(os.path.join(WT, "tests"), exist_ok=True)
    # demo on the clean tree
    demo_dst = os.path.join(WT, "tests", "seeded_demo.rs")
    subprocess.run(["cp", os.path.join(d, "demo.rs"), demo_dst])
    rc, out = sh(["cargo", "test", "--offline"] + feats + ["--test", "seeded_demo"], cwd=WT)
    res["demo_passes_clean"] = rc == 0
    os.remove(demo_dst)
    # with the patch
    sh(["git", "apply", os.path.join(d, "patch.diff")], cwd=WT)
    rc1, _ = sh(["cargo", "build", "--offline"], cwd=WT)
    rc2, _ = sh(["cargo", "build", "--offline", "--features", "async"], cwd=WT)
    res["builds_default"], res["builds_async"] = rc1 == 0, rc2 == 0
    rc, out = sh(["cargo", "test", "--workspace", "--no-fail-fast", "--offline"], cwd=WT)
    m = re.findall(r"test result: (\w+)\. (\d+) passed; (\d+) failed", out)
    res["baseline_with_patch"] = m
    res["baseline_ok"] = rc == 0 and bool(m) and int(m[0][1]) == 51 and all(x[0] == "ok" for x in m)
    subprocess.run(["cp", os.path.join(d, "demo.rs"), demo_dst])
    rc, out = sh(["cargo", "test", "--offline"] + feats + ["--test", "seeded_demo"], cwd=WT)
    # a failing #[test], or (for aborts such as a stack overflow) a test binary killed by a signal — never a compile error
    res["demo_fails_patched"] = rc != 0 and "could not compile" not in out and (
        "test result: FAILED" in out or "signal:" in out or "has overflowed its stack" in out or "SIGABRT" in out)
    if not res["demo_fails_patched"]:
        print(out[-1500:])
    clean(WT)
    ok = all([res["applies"], res["demo_passes_clean"], res["builds_default"], res["builds_async"], res["baseline_ok"], res["demo_fails_patched"]])
    res["confirmed"] = ok
    print(json.dumps(res))
    return 0 if ok else 1


def detect(d, props):
    d = os.path.abspath(d)
    rc, out = sh(["git", "-C", REPO, "status", "--porcelain", "--untracked-files=no"])
    if out.strip():
        print("refusing: /repo has uncommitted changes:\n" + out)
        return 2
    rc, out = sh(["git", "-C", REPO, "apply", os.path.join(d, "patch.diff")])
    if rc:
        print("patch does not apply:", out)
        return 2
    results = {}
    try:
        meta = {}
        try:
            meta = json.load(open(os.path.join(d, "meta.json")))
        except (OSError, ValueError):
            pass
        tier = meta.get("detect_tier", "quick")
        env = dict(ENV)
        if meta.get("detect_only_phases"):
            # a partial thorough run: can refute (exit 1), never comes out as held
            env["VERIF_ONLY_PHASES"] = meta["detect_only_phases"]
        for p in props:
            t0 = time.time()
            rc, out = sh([sys.executable, os.path.join(VERIF, "run.py"), "check", p, tier], cwd=VERIF, env=env)
            sigs = re.findall(r"^\[" + p + r"\] (C\d\d\|[^\n]*?) \(x\d+\)", out, re.M)
            results[p] = {"exit": rc, "violations": len(re.findall(r"^VIOLATION", out, re.M)), "signatures": sigs[:6],
                          "inconclusive": re.findall(r"^INCONCLUSIVE[^\n]*", out, re.M)[:2], "wall_s": round(time.time() - t0, 1)}
    finally:
        sh(["git", "-C", REPO, "checkout", "--", "."])
        sh(["git", "-C", REPO, "clean", "-fdq", "src", "tests"])
    print(json.dumps(results, indent=1))
    return 0


def all_seeded(only=None):
    """`only`: re-run just these seeds and merge the outcome into seeded/RESULTS.json."""
    base = os.path.join(VERIF, "seeded")
    rows = []
    for name in sorted(os.listdir(base)):
        if only and name not in only:
            continue
        d = os.path.join(base, name)
        if not os.path.exists(os.path.join(d, "meta.json")):
            continue
        meta = json.load(open(os.path.join(d, "meta.json")))
        props = meta.get("run_checks") or [meta["property"]]
        rc, out = sh([sys.executable, os.path.abspath(__file__), "detect", d] + props)
        try:
            res = json.loads(out[out.index("{"):])
        except ValueError:
            res = {"error": out[-300:]}
        caught = [p for p, r in res.items() if isinstance(r, dict) and r.get("exit") == 1]
        rows.append((name, meta["property"], caught, res))
        # record in the seed's own meta.json what was run against it and what fired
        meta["detection"] = {"ran": [f"git -C /repo apply {name}/patch.diff; python3 run.py check {p} quick; git -C /repo checkout -- ." for p in props],
                             "caught_by": caught,
                             "signatures": {p: r.get("signatures", []) for p, r in res.items() if isinstance(r, dict)},
                             "repo_head": sh(["git", "-C", REPO, "rev-parse", "--short", "HEAD"])[1].strip()}
        json.dump(meta, open(os.path.join(d, "meta.json"), "w"), indent=1)
        print(name, meta["property"], "caught by", caught, flush=True)
    new = [{"seed": n, "property": p, "caught_by": c, "detail": r} for n, p, c, r in rows]
    if only:
        try:
            old = json.load(open(os.path.join(base, "RESULTS.json")))
        except (OSError, ValueError):
            old = []
        names = {r["seed"] for r in new}
        new = sorted([r for r in old if r["seed"] not in names] + new, key=lambda r: r["seed"])
    json.dump(new, open(os.path.join(base, "RESULTS.json"), "w"), indent=1)
    missed = [n for n, p, c, r in rows if not c]
    print("missed:", missed)
    return 0


if __name__ == "__main__":
    cmd = sys.argv[1]
    if cmd == "verify":
        sys.exit(verify(sys.argv[2]))
    if cmd == "detect":
        sys.exit(detect(sys.argv[2], [a.upper() for a in sys.argv[3:]]))
    if cmd == "all":
        sys.exit(all_seeded())
    if cmd == "some":
        sys.exit(all_seeded(set(sys.argv[2:])))
