#!/usr/bin/env python3
"""Validate MANIFEST.json and evidence files against the schemas (uses the tooling venv's jsonschema)."""
import glob, json, sys
import jsonschema
m = json.load(open('/verif/MANIFEST.json')); s = json.load(open('/root/.vp/MANIFEST.schema.json'))
jsonschema.validate(m, s); print("manifest valid:", len(m["checks"]), "checks")
es = json.load(open('/root/.vp/EVIDENCE.schema.json'))
for f in sorted(glob.glob('/verif/evidence/*.json')):
    jsonschema.validate(json.load(open(f)), es); print("evidence valid:", f)
